#!/usr/bin/env python3
"""Maintainer tool (never run by a check): records the *specific inputs* -- configuration key + bitmap of failing
presence patterns -- of the genuine C04 defects F1, F2, F3, F11, F13 observed on the current tree, for both tiers.
Run as:  cd /verif && PYTHONPATH=/verif:/repo PYTHONHASHSEED=0 /venv/bin/python tools/gen_c04_findings.py
Anything it cannot attribute to one of those defects is NOT recorded (and therefore stays a VIOLATION)."""
import json
import os
import re
import sys

HERE = os.path.dirname(os.path.dirname(os.path.abspath(__file__)))
sys.path[:0] = [HERE, "/repo"]

from mc.props import c04  # noqa: E402
from mc.run import Ctx  # noqa: E402
from mc.core.par import pmap  # noqa: E402
from mc.core import cfgcheck  # noqa: E402

WHAT = {
    "F1": "partitioned affine Einsum whose loop order iterates the output levels before the filter rank (incl. the default order): iterRangeShapeRef arguments read the unbound partition-level names Q0/Q1 (NameError)",
    "F13": "loop order [Qn..Q0, W0] (all output levels, then the input rank) on a partitioned affine Einsum crashes the compiler with KeyError 'W<n>' instead of compiling or raising ValueError",
    "F2": "multi-level follow() stacks: 'q1_pos == 0 -> q0_start = 0' is evaluated per enclosing partition, contributions are counted twice / intervals overlap",
    "F3": "single-level follow(): q0_end of a non-last partition is the next partition start instead of min(next, Q); elements outside the declared output extent are created / contributions misplaced for unaligned extents",
    "F11": "stride/dilation 3: the projection lambda '1 / 3 * w + -1 / 3 * s' is float arithmetic (0.9999999999999999), prune(c % 1 == 0) drops genuine contributions",
}


def classify(cfg, f):
    tag = cfg["tag"]
    m = re.match(r"F1[a-zA-Z0-9]*\((-?\d+),(-?\d+)\)/(.*)", tag)
    if f["kind"] == "compile-exception":
        return "F13" if f["msg"].startswith("KeyError: 'W") else None
    if f["kind"] == "exception":
        if re.match(r"NameError: name '(Q\d|q\d)' is not defined", f["msg"]):
            return "F1"
        if "inserted into a fiber of shape" not in f["msg"]:
            return None
        # the shape-aware reference model refuses a coordinate beyond the declared extent: same defect class as an
        # out-of-extent element found after the run
    if not m and tag.startswith("F4v/") and f["kind"] == "wrong-value":
        return "F11"      # coefficient 3: float projection
    if not m and tag.startswith("F2d/U") and f["kind"] in ("out-of-extent", "exception", "wrong-value"):
        return "F3"
    if not m:
        return None
    a, b, st = int(m.group(1)), int(m.group(2)), m.group(3)
    nlev = 0 if st == "none" else st.count("+") + 1
    if f["kind"] in ("wrong-value", "out-of-extent", "exception"):
        if 3 in (abs(a), abs(b)):
            return "F11"
        if nlev >= 2:
            return "F2"
        if nlev == 1:
            return "F3"
    return None


def main():
    maps = {k: {} for k in WHAT}
    unclassified = []
    for tier in ("quick", "thorough"):
        ctx = Ctx("C04", tier, 0, 16)
        work = c04.configs(ctx)
        res = pmap(cfgcheck.check_cfg, work, jobs=16)
        for cfg, r in zip(work, res):
            for f in (r.get("fails") or ([r["fail"]] if r["fail"] else [])):
                cls = classify(cfg, f)
                key = cfgcheck.cfg_key(cfg["spec"], f["extents"], cfg.get("sizes"))
                if cls is None:
                    unclassified.append((cfg["tag"], cfg["spec"]["mapping"], f["extents"], f["kind"], f["msg"][:200]))
                    continue
                bm = f.get("bitmap") or "*"
                old = maps[cls].get(key)
                if old and old != "*" and bm != "*":
                    bm = "%x" % (int(old, 16) | int(bm, 16))
                maps[cls][key] = bm
        print(tier, {k: len(v) for k, v in maps.items()}, "unclassified:", len(unclassified))
    for u in unclassified[:40]:
        print("UNCLASSIFIED", u)
    path = os.path.join(HERE, "known_findings.json")
    data = json.load(open(path))
    data["findings"] = [e for e in data["findings"] if not (e["property"] == "C04" and e.get("generated"))]
    for cls, m in maps.items():
        if not m:
            continue
        data["findings"].append({
            "id": cls, "property": "C04", "status": "open", "generated": True,
            "what": WHAT[cls] + " (%d specific configuration/extent inputs recorded by key with their failing-pattern bitmaps)" % len(m),
            "line": "KNOWN-FINDING: property=C04 %s %s" % (cls, WHAT[cls]),
            "match": {"cfg_bitmaps": m}})
    json.dump(data, open(path, "w"), indent=1)
    print("written", path)


if __name__ == "__main__":
    main()
