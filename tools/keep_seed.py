#!/usr/bin/env python3
"""usage: keep_seed.py <seed id e.g. C13-1> <src dir> <detected_by (comma list or 'none')> <note>"""
import json, os, shutil, sys
sid, src, det, note = sys.argv[1:5]
dst = os.path.join(os.path.dirname(os.path.dirname(os.path.abspath(__file__))), "seeded", sid)
os.makedirs(dst, exist_ok=True)
for f in ("patch.diff", "demo.py"):
    shutil.copy(os.path.join(src, f), os.path.join(dst, f))
meta = json.load(open(os.path.join(src, "meta.json")))
meta["id"] = sid
meta["verified_by_me"] = ["632 tests pass with the patch (scratch worktree)", "demo.py exits 0 on the clean tree and non-zero with the patch",
                          "checks run against the patched worktree with MC_REPO=<worktree> ./check <id>"]
meta["detected_by"] = [] if det == "none" else det.split(",")
meta["note"] = note
json.dump(meta, open(os.path.join(dst, "meta.json"), "w"), indent=1)
print("kept", dst)
