#!/bin/bash
# usage: tools/try_seed.sh <worktree> <seed dir (contains patch.diff, demo.py)> <check ids...>
# Applies the patch in the scratch worktree (never in /repo), optionally validates it (VALIDATE=1: test suite + demo),
# runs the given checks against the worktree via MC_REPO, and restores the worktree.
WT=$1; SD=$2; shift 2
cd "$WT" || exit 2
git checkout -q -- teaal || exit 2
git checkout -q --detach main 2>/dev/null || exit 2
if [ "$VALIDATE" = "1" ]; then
  PYTHONPATH=$WT /venv/bin/python "$SD/demo.py" >/dev/null 2>&1; echo "demo on clean tree: exit $?"
fi
git apply "$SD/patch.diff" || { echo "PATCH DOES NOT APPLY"; exit 2; }
if [ "$VALIDATE" = "1" ]; then
  PYTHONPATH=$WT /venv/bin/python "$SD/demo.py" >/dev/null 2>&1; echo "demo with patch: exit $?"
  PYTHONPATH=$WT /venv/bin/python -m pytest -q -p no:cacheprovider -x 2>&1 | tail -1
fi
for c in "$@"; do
  MC_REPO=$WT timeout 1500 /verif/check $c ${TIER:+--tier $TIER} > /tmp/wt/last_$c.log 2>&1; rc=$?
  echo "check $c: exit $rc  $(grep -c '^VIOLATION' /tmp/wt/last_$c.log) violation line(s); $(grep -m1 -A1 '^VIOLATION' /tmp/wt/last_$c.log | tail -1 | cut -c1-200)"
done
git checkout -q -- teaal
