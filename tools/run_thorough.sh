#!/bin/bash
# runs the thorough tier of the given checks once, sequentially; prints one summary line per check
# (TMO=<seconds> bounds each check; a timeout is reported as exit 124 and says nothing about the property)
mkdir -p /tmp/wt
for c in "$@"; do
  start=$(date +%s)
  timeout ${TMO:-14400} ./check $c --tier thorough > /tmp/wt/thorough_$c.log 2>&1; rc=$?
  echo "$c exit=$rc $(( $(date +%s) - start ))s  $(grep -c '^VIOLATION' /tmp/wt/thorough_$c.log) violations; $(tail -1 /tmp/wt/thorough_$c.log | cut -c1-200)"
  grep '^VIOLATION' -A2 /tmp/wt/thorough_$c.log | head -12
done
