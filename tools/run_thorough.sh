#!/bin/bash
# runs every thorough tier once, sequentially; prints one summary line per check
for c in "$@"; do
  start=$(date +%s)
  ./check $c --tier thorough > /tmp/thorough_$c.log 2>&1; rc=$?
  echo "$c exit=$rc $(( $(date +%s) - start ))s  $(grep -c '^VIOLATION' /tmp/thorough_$c.log) violations; $(tail -1 /tmp/thorough_$c.log | cut -c1-200)"
  grep '^VIOLATION' -A2 /tmp/thorough_$c.log | head -12
done
