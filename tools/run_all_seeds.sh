#!/bin/bash
# Regression of the machinery against every kept seed: for each /verif/seeded/<id> apply the patch in a scratch worktree
# of /repo's HEAD, run the checks listed in meta.json (detected_by) in the quick tier, expect exit 1.  Never touches /repo.
WT=/tmp/wt/allseeds$SHARD   # SHARD=<suffix> with ONLY=<ids> lets several shards run side by side
git -C /repo worktree remove --force $WT 2>/dev/null
git -C /repo worktree add -q --detach $WT HEAD || exit 2
ok=0; bad=0
for d in /verif/seeded/*/; do
  id=$(basename $d)
  checks=$(/venv/bin/python -c "import json;print(' '.join(json.load(open('$d/meta.json'))['detected_by']))")
  [ -z "$checks" ] && { echo "$id: documented as not detected"; continue; }
  [ -n "$ONLY" ] && [[ ! " $ONLY " =~ " ${id%%-*} " ]] && continue
  (cd $WT && git checkout -q -- teaal && git apply $d/patch.diff) || { echo "$id: PATCH DOES NOT APPLY"; bad=$((bad+1)); continue; }
  for c in $checks; do
    MC_REPO=$WT timeout 1500 /verif/check $c > /tmp/wt/seedrun$SHARD.log 2>&1; rc=$?
    if [ $rc -eq 1 ]; then ok=$((ok+1)); echo "$id: $c detects it"; else bad=$((bad+1)); echo "$id: $c exit $rc  *** NOT DETECTED ***"; fi
  done
  (cd $WT && git checkout -q -- teaal)
done
git -C /repo worktree remove --force $WT
echo "detections: $ok, failures: $bad"
