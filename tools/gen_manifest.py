#!/usr/bin/env python3
"""Regenerates /verif/MANIFEST.json from the table below (keeps the file valid at all times)."""
import json
import os

HERE = os.path.dirname(os.path.dirname(os.path.abspath(__file__)))

REF = "reference HiFiber model (mc/model/refhifiber.py) stands in for fibertree; payload values never steer control flow (trapped), so one formal-polynomial execution per presence pattern covers all integer inputs; bounded extents"

CHECKS = {
    "C01": dict(engine="E-SPEC x E-DATA", cat="exploration",
                text="Every Einsum template (products, sums, take, scalars, rank-0, output-only ranks, operand permutations) x every loop-order permutation x every per-tensor rank-order permutation is compiled by the real compiler and the emitted program is executed on the reference HiFiber model for ALL presence patterns of the bounded extents with formal polynomial values; the output must equal an independent dense evaluation.",
                note=REF, tech="bounded exhaustive enumeration of configurations x inputs, executed on the implementation's emitted code against a reference model"),
    "C02": dict(engine="E-SPEC x E-DATA", cat="exploration",
                text="Templates x subsets of ranks x shape-partitioning stacks (uniform/nway, literal/oversized/symbolic sizes, 1-3 levels) x loop orders over the rank levels x extents x all presence patterns; output under its declared name, rank ids and original coordinates must equal the dense evaluation.",
                note=REF, tech="bounded exhaustive enumeration of configurations x inputs against a reference model"),
    "C03": dict(engine="E-SPEC x E-DATA", cat="exploration",
                text="Product Einsums x (rank, every leader holding it) x occupancy stacks (1-3 levels, beneath a shape split, mixed leaders) x flatten tuples of 2-3 ranks of one tensor (incl. a partition level) optionally followed by occupancy partitioning of the flattened rank x all level-monotone loop orders x extents x all presence patterns; sigma/extensor/demo mappings with every size of the menu. Output must equal the dense evaluation; only the stated rejections are tolerated.",
                note=REF, tech="bounded exhaustive enumeration of configurations x inputs against a reference model"),
    "C04": dict(engine="E-SPEC x E-DATA", cat="exploration",
                text="Affine Einsums (1-D convolution with strides/dilations, subsampling, 3-variable access, 2-D convolution) x every legal loop order x shape stacks on the output rank with follow() x shape-consistent extents (W and W+1) x all presence patterns, each under both halo policies; a pattern is reported only if it fails under both. The current tree violates the property (F1,F2,F3,F11,F13): those specific inputs are recorded by configuration key + failing-pattern bitmap, every other failing pattern or configuration is a VIOLATION.",
                note=REF + "; halo partition-creation policy of splitUniform is ambiguous, hence the dual-policy rule", tech="bounded exhaustive enumeration of configurations x inputs against a reference model"),
    "C05": dict(engine="E-HIST", cat="model_checking",
                text="All cascades (histories) of Einsum events up to depth 2 (quick) / 3 (thorough) over a 16-19 event alphabet, each event with its own mapping and reading a declared input or any earlier output of the right shape; every transition compiles the extended cascade with the real HiFiber and checks prefix closure, equality with the stand-alone compilation up to temporaries, chained dense semantics on all presence patterns, and that all shared Tensor objects are back in their initial state.",
                note=REF + "; histories bounded by depth", tech="exhaustive exploration of operation histories on the implementation with differential and reference-model oracles"),
    "C06": dict(engine="E-SPEC", cat="exploration",
                text="Every program of the compile-only corpus (union of the C01-C05 universes, C11/C16 universes when built, the repository's example specifications; plain, graphics and metrics mode) is parsed and analysed by a flow-sensitive definite-assignment analysis in which loops may run zero times, loop targets are local and lambdas are checked at their definition; the user-supplied name set is derived from the raw specification alone.",
                note="static analysis oracle (mc/analysis/closure.py, self-tested by setup); corpus bounded as stated in the evidence", tech="bounded exhaustive enumeration of configurations; static definite-assignment oracle on every emitted program"),
    "C07": dict(engine="E-SPEC x E-DATA", cat="exploration",
                text="A slice of the C01-C04 universes x all presence patterns of small extents; the oracle inspects the final global namespace of the reference-model run: every <Name>_<Ranks> variable's rank ids spell <Ranks>, each result is bound under its declared/rank-order name with integer in-extent coordinates, every input variable and input object is unchanged.",
                note=REF + "; aliasing semantics of the model: setRankIds in place, fromFiber/getRoot alias, other transformations copy", tech="bounded exhaustive enumeration of configurations x inputs; namespace oracle"),
    "C09": dict(engine="E-SPEC", cat="exploration",
                text="(a) every program of the compile-only corpus: the HiFiber statement tree is converted structurally to a normal form and compared with Python's parse of the printed text (re-association of one associative operator, transparent parenthesis nodes, folded negative literals - nothing else); (b) every affine coordinate expression within the coefficient bound through CoordAccess.build_expr, tree vs text and numeric evaluation on [-2,2]^3.",
                note="normal form as stated; corpus bounded as stated in the evidence", tech="bounded exhaustive enumeration; structural tree-vs-parse comparison"),
    "C13": dict(engine="E-HIST", cat="model_checking",
                text="Every history of Einsum events (config x temporal prefix x functional-component binding set) up to depth 2 over the full alphabet and depth 3/4 over a 16-event alphabet is driven through the real Program/Hardware/Fusion objects; the blocks (and the metrics[\"blocks\"] literal of the emitted dump) are judged by an independent reference of the legality rules.",
                note="bounded: histories up to the stated depth; space ranks a suffix of the loop order; functional component = FunctionalComponent subclasses",
                tech="explicit-state exhaustive exploration of operation histories on the implementation"),
}

CHECKS["C08"] = dict(engine="E-SCHED", cat="model_checking",
                     text="An import hook rewrites teaal at load time so that every iteration over a set asks the explorer for its order. For ~45-200 specifications (several partitioned ranks, flattening, several independent partitionings of one tensor, every kind of metrics binding, cascades, the accelerator files) every set-order choice sequence within d deviations of the canonical order (d=1 quick, d=2 thorough; complete when small) is compiled; each distinct text must be closed and compute the Einsum on all presence patterns, and acceptance must not depend on the order. Real interpreters under 6-24 PYTHONHASHSEED values compile each specification twice (identical texts required), their texts get the same oracles, and their recorded orders are replayed under the controlled scheduler and must reproduce the real text byte for byte (ownership proof).",
                     note="deviation-bounded on large order spaces (completed bound reported); dict/networkx orders are functions of insertion order and hence of the owned choices; str()/repr() of sets are not rewritten (a leak would surface as replay divergence = HARNESS-INCOMPLETE)", tech="stateless deviation-bounded schedule exploration of the implementation under a controlled scheduler, with record/replay validation against real schedules")
CHECKS["C10"] = dict(engine="E-SCHED", cat="model_checking",
                     text="The controlled topological sort owns every tie-break of FlowGraph.__sort; the real __hoist and translator run on each order. Default tie-break: every specification of the compile-only corpus (order invariants + closure of the emitted text); a slice of ~70-300 specifications with rich graphs (partitioned, dynamic, flattened, metrics with every binding kind, cascades, accelerator files): every linear extension within d deviations (d=1 quick, d=2 thorough, complete when small), each checked for order invariants, closed text, equal acceptance across tie-breaks and correct results on the reference model; specifications on which every explored order crashes (not a ValueError) are explored to 2 deviations in both tiers.",
                     note="deviation-bounded (completed bound reported per specification); the controlled Kahn scheduler reaches every linear extension and reproduces networkx's order when always answering 0", tech="stateless deviation-bounded schedule exploration of the implementation under a controlled scheduler")
HWREF = "hardware alphabet of mc/spec/hw.py (one architecture skeleton, <= 2-3 component bindings per Einsum); stand-in Metrics/Traffic/Compute/Format/*Intersector models; reference HiFiber model"
CHECKS["C11"] = dict(engine="E-SPEC x E-DATA", cat="exploration",
                     text="Base Einsums/mappings (matmul in several loop orders, shape/occupancy/flatten mappings, 3-operand product, sum, broadcast, convolution, gamma-like take cascade) x every combination of component bindings from the hardware alphabet (DRAM->Buffet lazy/eager with every evict-on, DRAM->Cache, compute, each intersector type on each co-iterated rank with each leader, sequencers, mergers) x formats; every accepted configuration is executed in metrics mode AND in plain mode on all presence patterns with inert stand-ins; tensors must equal the dense evaluation. Explicit output shapes are enforced by the (shape-aware) reference model.",
                     note=HWREF, tech="bounded exhaustive enumeration of configurations x inputs against a reference model")
CHECKS["C12"] = dict(engine="E-SPEC", cat="exploration",
                     text="The same hardware universe plus the repository's accelerator specifications, compiled in metrics mode; a static producer/consumer cross-reference over the emitted text checks the beginCollect/endCollect bracket of every loop nest, that every consumed trace file is produced earlier in the same Einsum's section (registration with the same prefix, rank and type, or an emitted filter step; eager traces also need the <fiber>.trace call), that consumeTrace targets are registered consumable and that every queried intersector model is created before the loops and fed within the collection.",
                     note=HWREF, tech="bounded exhaustive enumeration of configurations; static cross-reference oracle")
CHECKS["C14"] = dict(engine="E-SPEC x E-HIST", cat="exploration",
                     text="Single-Einsum hardware universe under several instance/frequency/bandwidth assignments plus all cascades of 2(-3) Einsum events over two hardware configurations (every fusion situation); the emitted program runs with stand-in models that hand out a distinct prime for every count; the metrics dictionary is compared with an independent roll-up: (A) time = sum over blocks of max over components of summed component times, over all component times present; (B) each component time = counts / (rate x instances); (C) every count handed out reaches metrics exactly once.",
                     note=HWREF + "; float division compared with exact rationals at 1e-9 relative tolerance", tech="bounded exhaustive enumeration of configurations/histories; execution with prime-valued stand-ins against an independent roll-up")
CHECKS["C15"] = dict(engine="E-HIST", cat="model_checking",
                     text="All histories of compile events up to depth 2 (quick) / 3-4 (thorough) over ~19 specifications (plain, partitioned, two flattenings yielding the same flattened rank name, follow(), spacetime, cascade, every kind of hardware binding, a format without cbits, the accelerator files); one set of parsed objects per specification and history; every transition calls the real HiFiber in its own forked interpreter. Oracles: parsed objects unchanged (deep snapshot), recompilation from the same objects succeeds with the same text, every text equals the text from a brand-new interpreter, interpreter-wide teaal state (class attributes, mutable defaults) does not grow when the same specification is recompiled.",
                     note="histories bounded by depth; generic snapshot of everything reachable from the parsed objects; PYTHONHASHSEED fixed", tech="exhaustive exploration of operation histories on the implementation with snapshot and differential (fresh-interpreter) oracles")
CHECKS["C16"] = dict(engine="E-SPEC x E-DATA", cat="exploration",
                     text="Bases (matmul plain / shape / occupancy / flatten / sigma, 3-operand product, sum, convolution plain and partitioned, broadcast) x level-monotone loop orders x every split of the loop ranks into space and time x styles (all-pos, all-coord, single-rank deviations) x slip on/off x all presence patterns; with recording createCanvas/addActivity/displayCanvas stand-ins: tensors equal those of the same specification compiled without spacetime, exactly one activity per executed update, one point per displayed tensor with one coordinate per rank of the tensor passed to createCanvas, and pairwise distinct (space,time) stamps when every loop rank is stamped.",
                     note="reference HiFiber model; bounded bases/extents", tech="bounded exhaustive enumeration of configurations x inputs with recording stand-ins")
CHECKS["C17"] = dict(engine="E-GRAM", cat="exploration",
                     text="Exhaustive derivation of the sentences of the five grammars within structural bounds (index-expression menu with signed coefficients, rank lists of length 0-2 on inputs and output, terms of <= 3 factors incl. take() with every selector, <= 3 terms, keyword-like names; every directive kind x size x leader; rank tuples of 1-3 names; stamps; level names with instance ranges) x whitespace variants at terminal boundaries; an independent extractor reads the lark tree back and must return the generating structure (instance ranges through Architecture: N+1). Near misses (every single-token deletion/duplication/swap of base sentences plus hand-written ones that an independent recogniser places outside the language) must raise.",
                     note="NUMBER instantiated with integer literals only; bounds as stated", tech="exhaustive grammar-based enumeration of inputs with an independent extractor/recogniser oracle")
CHECKS["C18"] = dict(engine="E-SPEC", cat="exploration",
                     text="For each of the 15 legality rules of the statement, every injection site in a 13-member legal base set (products, sums, take, index math, 1-3 level stacks, flatten tuples of 2-3 ranks, a two-Einsum metrics cascade); parsing + HiFiber(...) must raise ValueError and return no text; the bases themselves must compile.",
                     note="injection sites bounded by the base set", tech="exhaustive fault/violation injection over a finite base set")
CHECKS["C19"] = dict(engine="E-SPEC", cat="exploration",
                     text="All templates (operand permutations, take first/last, affine accesses, terms listing contracted ranks in different orders) x partitionings without flatten x every subset of {rank-order, loop-order, partitioning} written explicitly vs omitted; the explicit default is computed from the structured specification by the rule of the statement; emitted texts must be identical.",
                     note="templates and partitionings bounded as stated", tech="bounded exhaustive enumeration; differential text oracle with an independently computed default")

ALL = ["C%02d" % i for i in range(1, 20)]


def main():
    checks = []
    for pid in ALL:
        if pid not in CHECKS:
            continue
        c = CHECKS[pid]
        checks.append({
            "property_id": pid,
            "quick_cmd": "./check %s --tier quick" % pid,
            "thorough_cmd": "./check %s --tier thorough" % pid,
            "evidence_file": "evidence/%s.json" % pid,
            "replay_cmd_template": "./check %s --replay {path}" % pid,
            "engine": c["engine"],
            "level_claimed": {"category": c["cat"], "text": c["text"], "design_ref": "DESIGN.md section 3, " + pid},
            "level_note": c["note"],
            "technique": c["tech"],
        })
    na = [{"property_id": p, "reason": "check not built yet; the technique applies, see DESIGN.md section 3"}
          for p in ALL if p not in CHECKS]
    m = {
        "version": 1,
        "setup_cmd": "cd /verif && ./setup.sh",
        "hooks": {
            "guard": "TEAAL_COMPILER_VERIF",
            "enable": "no source hooks are needed: the harness imports /repo's working tree directly (set-order ownership is an import-time AST transformation, the controlled topological sort and all stand-ins are injected from outside)",
            "baseline_off_cmd": "cd /repo && /venv/bin/python -m pytest -ra -q -p no:cacheprovider --timeout=900 --continue-on-collection-errors",
            "source_commits": [],
            "add_only": True,
        },
        "engines": [
            {"name": "E-SPEC x E-DATA", "path": "mc/core/cfgcheck.py", "serves_properties": ["C01", "C02", "C03", "C04", "C07"],
             "kind_free_text": "exhaustive enumeration of a finite specification universe; every emitted program executed on the reference HiFiber model for every presence pattern with formal values"},
            {"name": "E-HIST", "path": "mc/props/c13.py", "serves_properties": ["C05", "C13", "C15"],
             "kind_free_text": "explicit-state BFS over operation histories driving the real state machines"},
        ],
        "checks": checks,
        "not_applicable": na,
        "notes": "fix: commits in /repo are listed in known_findings.json (status=fixed); open findings print KNOWN-FINDING lines",
    }
    with open(os.path.join(HERE, "MANIFEST.json"), "w") as f:
        json.dump(m, f, indent=1)
    print("MANIFEST.json: %d checks, %d not yet claimed" % (len(checks), len(na)))


if __name__ == "__main__":
    main()
