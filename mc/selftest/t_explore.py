from mc.core.explore import Chooser, explore


def toy(prefix):
    # three choice points with 3, 2, 2 options -> 12 leaves
    ch = Chooser(prefix)
    a = ch.choose(3)
    b = ch.choose(2)
    c = ch.choose(2)
    ch.finish()
    return ch.choices, ch.arity, (a, b, c)


def test_complete_enumeration():
    r = explore(lambda ps: [toy(p) for p in ps], max_dev=10, budget=1000)
    assert r["exhaustive"] and sum(r["levels"]) == 12
    assert len({p for _, p in r["executions"]}) == 12
    assert r["levels"] == [1, 4, 5, 2]


def test_bounded():
    r = explore(lambda ps: [toy(p) for p in ps], max_dev=1, budget=1000)
    assert not r["exhaustive"] and r["levels"] == [1, 4] and r["completed_bound"] == 1
