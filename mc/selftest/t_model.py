"""Self-tests of the reference model and of the execution oracles (hand-computed cases)."""
from mc.core import execspec as X
from mc.model import refhifiber as hf
from mc.spec.build import E, T, times

SPEC = {"decl": {"A": ["K", "M"], "B": ["K", "N"], "Z": ["M", "N"]},
        "exprs": [E("Z", ["m", "n"], times(T("A", "k", "m"), T("B", "k", "n")))], "mapping": {}}
EXT = {"K": 2, "M": 2, "N": 1}
GOOD = """Z_MN = Tensor(rank_ids=["M", "N"], name="Z")
A_MK = A_KM.swizzleRanks(rank_ids=["M", "K"])
B_NK = B_KN.swizzleRanks(rank_ids=["N", "K"])
z_m = Z_MN.getRoot()
a_m = A_MK.getRoot()
b_n = B_NK.getRoot()
for m, (z_n, a_k) in z_m << a_m:
    for n, (z_ref, b_k) in z_n << b_n:
        for k, (a_val, b_val) in a_k & b_k:
            z_ref += a_val * b_val
"""


def full_inputs():
    cells = X.cell_list(SPEC, EXT)
    return X.inputs_of_mask(SPEC, cells, (1 << len(cells)) - 1)


def run(text, **kw):
    return X.run_case(X.compile_code(text), SPEC, EXT, full_inputs(), **kw)


def test_good_program_passes_all_oracles():
    r = run(GOOD, c07=True)
    assert r.ok, (r.kind, r.msg)
    s = X.sweep(GOOD, SPEC, EXT)
    assert s["patterns"] == 64 and not s["fails"] and s["nonempty"] > 0


def test_wrong_value_is_seen():
    r = run(GOOD.replace("z_ref += a_val * b_val", "z_ref <<= a_val * b_val"))
    assert not r.ok and r.kind == "wrong-value"


def test_input_modification_is_seen():
    r = run(GOOD + 'x = A_KM.getRoot().getPayloadRef(0, 0)\nx <<= 5\n', c07=True)
    assert not r.ok and r.kind == "input-modified", (r.kind, r.msg)


def test_name_lie_is_seen():
    r = run(GOOD + 'A_MK.setRankIds(rank_ids=["K", "M"])\n', c07=True)
    assert not r.ok and r.kind == "name-lie", (r.kind, r.msg)


def test_output_name_and_extent():
    r = run(GOOD.replace("Z_MN", "Z_NM"))
    assert not r.ok and r.kind == "missing-output"
    r = run(GOOD + "Z_MN.getRoot().getPayloadRef(5, 0)\n")
    assert not r.ok and r.kind == "out-of-extent", (r.kind, r.msg)


def test_payload_values_must_not_steer_control_flow():
    r = run(GOOD.replace("z_ref += a_val * b_val", "z_ref += a_val * b_val if a_val else 0"))
    assert not r.ok and r.kind == "exception" and "truth value" in r.msg


def test_split_uniform_halo_policies():
    t = hf.Tensor.fromPoints(["W"], [((0,), 1), ((4,), 1)])
    hf.reset_state("M")
    m = t.splitUniform(2, depth=0, post_halo=1)
    hf.reset_state("H")
    h = t.splitUniform(2, depth=0, post_halo=1)
    assert [c for c, _ in m.root.items()] == [0, 4]
    # window [2, 5) of partition 2 contains coordinate 4: partition 2 exists only under policy H
    assert [c for c, _ in h.root.items()] == [0, 2, 4]
    hf.reset_state("M")


def test_iteration_skips_empty_payloads_and_shape_is_enforced():
    t = hf.Tensor(rank_ids=["M"], name="Z", shape=[2])
    t.getRoot().getPayloadRef(1)
    assert list(t.getRoot()) == []
    try:
        t.getRoot().getPayloadRef(2)
    except hf.ModelError:
        pass
    else:
        raise AssertionError("coordinate beyond the shape accepted")


def test_split_equal_and_nonuniform():
    t = hf.Tensor.fromPoints(["K"], [((c,), 1) for c in (1, 3, 4, 7, 9)])
    e = t.splitEqual(2)
    assert [(c, p.getCoords()) for c, p in e.root.items()] == [(1, [1, 3]), (4, [4, 7]), (9, [9])]
    f = hf.Tensor.fromPoints(["K"], [((c,), 1) for c in (0, 3, 5, 8)]).splitNonUniform(e.root)
    assert [(c, p.getCoords()) for c, p in f.root.items()] == [(1, [3]), (4, [5, 8])]
