"""Self-tests of the verification machinery (run by setup_cmd)."""
import importlib
import pkgutil
import sys

import mc.selftest as pkg


def main():
    n = 0
    for m in pkgutil.iter_modules(pkg.__path__):
        if not m.name.startswith("t_"):
            continue
        mod = importlib.import_module("mc.selftest." + m.name)
        for name in sorted(dir(mod)):
            if name.startswith("test_"):
                getattr(mod, name)()
                n += 1
    print("selftest: %d tests passed" % n)


if __name__ == "__main__":
    sys.exit(main())
