from mc.analysis.closure import analyse, supplied_from_yaml


def names(text, supplied=()):
    err, probs = analyse(text, supplied)
    assert err is None, err
    return sorted((p.name, p.lineno) for p in probs)


def test_straight_line():
    assert names("a = 1\nb = a + c\n") == [("c", 2)]
    assert names("a = 1\nb = a + c\n", {"c"}) == []


def test_if_join_is_intersection():
    assert names("if X:\n    a = 1\nelse:\n    b = 2\nz = a\n", {"X"}) == [("a", 5)]
    assert names("if X:\n    a = 1\nelse:\n    a = 2\nz = a\n", {"X"}) == []
    assert names("if X:\n    a = 1\nz = a\n", {"X"}) == [("a", 3)]


def test_loops_may_run_zero_times_and_targets_are_local():
    assert names("for i, (p, q) in F:\n    y = p\nz = y\n", {"F"}) == [("y", 3)]
    assert names("for i, (p, q) in F:\n    y = p\nz = i\n", {"F"}) == [("i", 3)]
    assert names("y = None\nfor i in F:\n    y = i\nz = y\n", {"F"}) == []
    assert names("for i in f(i):\n    pass\n", {"f"}) == [("i", 1)]


def test_augassign_needs_binding():
    assert names("x += 1\n") == [("x", 1)]
    assert names("x = 0\nx += 1\n") == []
    assert names('m["a"]["b"] += t[0]\n', {"t"}) == [("m", 1)]


def test_lambda_and_calls():
    assert names("f = X.project(trans_fn=lambda w: w + -1 * q, interval=(0, S))\n", {"X", "S"}) == [("q", 1)]
    err, probs = analyse("for m1, z in o.iterRangeShapeRef(0, M, M0):\n    pass\n", {"o", "M"})
    assert [(p.name, p.site) for p in probs] == [("M0", "iterRangeShapeRef")]


def test_syntax_error():
    err, _ = analyse("for x in\n", ())
    assert err


def test_supplied_from_yaml():
    y = {"einsum": {"declaration": {"A": ["K", "M"], "B": ["K", "N"], "T": ["M", "N"], "Z": ["M", "N"]},
                    "expressions": ["T[m, n] = A[k, m] * B[k, n]", "Z[m, n] = take(T[m, n], a, 0)"]},
         "mapping": {"rank-order": {"A": ["M", "K"]},
                     "partitioning": {"Z": {"M": ["uniform_shape(M1)", "uniform_occupancy(A.8)", "uniform_occupancy(T.SZ)"]}}}}
    s = supplied_from_yaml(y)
    assert {"A_MK", "B_KN", "a", "M1", "SZ", "K", "M", "N"} <= s
    assert "T_MN" not in s and "Z_MN" not in s and "take" not in s
