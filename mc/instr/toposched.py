"""Controlled topological sort (E-SCHED): the name `nx` inside teaal.ir.flow_graph is replaced by a proxy whose
topological_sort(G) runs Kahn's algorithm and asks the explorer which ready node to emit.  The ready list is ordered by
the position networkx itself would have given the node, so always answering 0 reproduces networkx's order exactly;
every linear extension of G is reachable.  Everything else delegates to networkx."""
import networkx as _nx


class Proxy:
    def __init__(self):
        self.chooser = None
        self.graphs = []

    def __getattr__(self, name):
        return getattr(_nx, name)

    def topological_sort(self, G):
        real = list(_nx.topological_sort(G))
        if self.chooser is None:
            return iter(real)
        pos = {n: i for i, n in enumerate(real)}
        indeg = {n: G.in_degree(n) for n in G.nodes}
        ready = sorted((n for n in G.nodes if indeg[n] == 0), key=pos.get)
        out = []
        while ready:
            k = self.chooser.choose(len(ready), "topo")
            n = ready.pop(k)
            out.append(n)
            new = []
            for m in G.successors(n):
                indeg[m] -= 1
                if indeg[m] == 0:
                    new.append(m)
            ready = sorted(ready + new, key=pos.get)
        if len(out) != len(real):
            raise _nx.NetworkXUnfeasible("graph has a cycle")
        return iter(out)


PROXY = Proxy()
_captured = []


def install():
    """idempotent; returns the proxy"""
    import teaal.ir.flow_graph as fg
    import teaal.trans.hifiber as H
    if getattr(fg, "_mc_installed", False):
        return PROXY
    fg.nx = PROXY
    base = fg.FlowGraph

    class RecFlowGraph(base):
        def __init__(self, *a, **k):
            super().__init__(*a, **k)
            _captured.append(self)
    H.FlowGraph = RecFlowGraph
    fg._mc_installed = True
    return PROXY


def captured():
    return _captured


def reset(chooser=None):
    PROXY.chooser = chooser
    del _captured[:]
