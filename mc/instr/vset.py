"""Owning set-iteration order inside teaal (E-SCHED, DESIGN 2.5).

A sys.meta_path finder loads every teaal.* module from the repository's working tree through an ast.NodeTransformer: the
iterable of every `for`, of every comprehension clause, every positional argument of an order-consuming callable and
every starred element is wrapped as __vs_it__(E, site).  At run time, if E is a set/frozenset with >= 2 elements the
wrapper decides (or observes) its order:
  mode "record":  CPython's own order is used and logged (one entry per new (set object, content));
  mode "choose":  the Chooser is asked position by position which of the remaining elements (canonically sorted by repr)
                  comes next; answer 0 everywhere = canonical order.
One order per set object and content version: iterating the same unchanged set again yields the same order (as in
CPython); distinct set objects are independent choice points.  No file under the repository is modified.
"""
import ast
import importlib.abc
import importlib.util
import os
import sys

from mc.core.paths import REPO

# callables that consume their argument in iteration order and do not hand the container itself on (str()/repr() of a set
# and '%s' formatting are not rewritten: should such a string ever reach the emitted text, the record/replay validation of
# real hash seeds diverges and the check stops with HARNESS-INCOMPLETE)
CONSUMERS = {"list", "tuple", "sorted", "enumerate", "zip", "max", "min", "iter", "sum", "reversed", "chain", "Counter", "dict",
             "map", "filter"}
METHODS = {"join", "from_iterable", "extend"}


class Ctl:
    mode = "off"        # off | record | choose
    chooser = None
    log = []            # record: [(site, canonical key, order indices)]
    memo = {}           # id(set) -> (set object kept alive, content key, ordered list)
    sites = set()


def reset(mode="off", chooser=None):
    Ctl.mode = mode
    Ctl.chooser = chooser
    Ctl.log = []
    Ctl.memo = {}


def canon(elems):
    return sorted(elems, key=repr)


def it(x, site):
    if Ctl.mode == "off" or type(x) not in (set, frozenset):
        return x
    if len(x) <= 1:
        return list(x)
    base = canon(x)
    key = tuple(repr(e) for e in base)
    m = Ctl.memo.get(id(x))
    if m is not None and m[0] is x and m[1] == key:
        return list(m[2])
    Ctl.sites.add(site)
    if Ctl.mode == "record":
        real = list(x)
        order = [base.index(e) for e in real]
        Ctl.log.append((site, key, order))
        Ctl.memo[id(x)] = (x, key, real)
        return list(real)
    remaining = list(base)
    out = []
    while len(remaining) > 1:
        k = Ctl.chooser.choose(len(remaining), site)
        out.append(remaining.pop(k))
    out.append(remaining[0])
    Ctl.memo[id(x)] = (x, key, out)
    return list(out)


def order_to_choices(order):
    """indices into the canonical list -> 'which of the remaining' choices"""
    remaining = list(range(len(order)))
    out = []
    for idx in order[:-1]:
        k = remaining.index(idx)
        out.append(k)
        remaining.pop(k)
    return out


class Rewriter(ast.NodeTransformer):
    def __init__(self, modname):
        self.modname = modname
        self.n = 0

    def wrap(self, node):
        if isinstance(node, (ast.Constant, ast.List, ast.Tuple, ast.Dict, ast.ListComp, ast.JoinedStr)):
            return node
        self.n += 1
        site = "%s:%d:%d" % (self.modname, getattr(node, "lineno", 0), self.n)
        return ast.copy_location(ast.Call(func=ast.Name(id="__vs_it__", ctx=ast.Load()), args=[node, ast.Constant(site)], keywords=[]), node)

    def visit_For(self, node):
        self.generic_visit(node)
        node.iter = self.wrap(node.iter)
        return node

    def visit_comprehension(self, node):
        self.generic_visit(node)
        node.iter = self.wrap(node.iter)
        return node

    def visit_Starred(self, node):
        self.generic_visit(node)
        if isinstance(node.ctx, ast.Load):
            node.value = self.wrap(node.value)
        return node

    def visit_Call(self, node):
        self.generic_visit(node)
        f = node.func
        name = None
        if isinstance(f, ast.Name):
            name = f.id if f.id in CONSUMERS else None
        elif isinstance(f, ast.Attribute) and f.attr in METHODS:
            name = f.attr
        if name is not None:
            node.args = [a if isinstance(a, ast.Starred) else self.wrap(a) for a in node.args]
        return node


class Loader(importlib.abc.Loader):
    def __init__(self, fullname, path):
        self.fullname, self.path = fullname, path

    def create_module(self, spec):
        return None

    def exec_module(self, module):
        with open(self.path) as f:
            src = f.read()
        tree = ast.parse(src, self.path)
        tree = Rewriter(self.fullname).visit(tree)
        ast.fix_missing_locations(tree)
        code = compile(tree, self.path, "exec")
        module.__dict__["__vs_it__"] = it
        exec(code, module.__dict__)


class Finder(importlib.abc.MetaPathFinder):
    def find_spec(self, fullname, path, target=None):
        if fullname != "teaal" and not fullname.startswith("teaal."):
            return None
        rel = fullname.replace(".", "/")
        p = os.path.join(REPO, rel)
        if os.path.isdir(p):
            f = os.path.join(p, "__init__.py")
            return importlib.util.spec_from_file_location(fullname, f, loader=Loader(fullname, f), submodule_search_locations=[p])
        f = p + ".py"
        if os.path.exists(f):
            return importlib.util.spec_from_file_location(fullname, f, loader=Loader(fullname, f))
        return None


_installed = False


def install():
    global _installed
    if _installed:
        return
    if any(m == "teaal" or m.startswith("teaal.") for m in sys.modules):
        raise RuntimeError("mc.instr.vset.install() must run before teaal is imported")
    sys.meta_path.insert(0, Finder())
    _installed = True
