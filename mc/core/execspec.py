"""Execute emitted programs on the reference model for every presence pattern and compare with the
dense evaluation (E-DATA, DESIGN 2.3)."""
import itertools
import traceback

from mc.model import refhifiber as hf
from mc.model.poly import Poly, is_zero
from mc.model import dense
from mc.spec import build as B


def cell_list(spec, extents):
    """canonical enumeration of all input cells: [(tensor, coord in declared order)]"""
    cells = []
    for t in B.input_tensors(spec):
        ranks = spec["decl"][t]
        for c in itertools.product(*[range(extents[r]) for r in ranks]):
            cells.append((t, c))
    return cells


def n_cells(spec, extents):
    n = 0
    for t in B.input_tensors(spec):
        k = 1
        for r in spec["decl"][t]:
            k *= extents[r]
        n += k
    return n


def inputs_of_mask(spec, cells, mask):
    ins = {t: {} for t in B.input_tensors(spec)}
    for i, (t, c) in enumerate(cells):
        if mask >> i & 1:
            ins[t][c] = Poly.var(t + "".join("_%d" % x for x in c))
    return ins


def make_input_tensor(spec, t, data):
    decl = spec["decl"][t]
    ro = B.rank_order(spec, t)
    perm = [decl.index(r) for r in ro]
    pts = [(tuple(c[i] for i in perm), v) for c, v in data.items()]
    return hf.Tensor.fromPoints(ro, pts, t)


def tensor_to_decl(spec, name, tensor):
    """points of a model tensor keyed by coordinates in declared order, zeros dropped"""
    decl = spec["decl"][name]
    ids = tensor.getRankIds()
    perm = [ids.index(r) for r in decl]
    out = {}
    for cs, v in tensor.points():
        if is_zero(v):
            continue
        cs = hf.norm(cs)
        out[tuple(cs[i] for i in perm)] = Poly.lift(v)
    return out


def base_env(spec, extents, sizes=None):
    env = {"Tensor": hf.Tensor, "Fiber": hf.Fiber}
    env.update(extents)
    for s in B.scalar_names(spec):
        env[s] = Poly.var(s)
    if sizes:
        env.update(sizes)
    return env


class CaseResult:
    __slots__ = ("ok", "kind", "msg", "env", "outputs", "world")

    def __init__(self, ok, kind=None, msg=None, env=None, outputs=None, world=None):
        self.ok, self.kind, self.msg, self.env, self.outputs, self.world = ok, kind, msg, env, outputs, world


def snapshot(t):
    return (t.getRankIds(), sorted((hf.norm(c), repr(v)) for c, v in t.points()))


def names_check(spec, env, in_objs, before):
    """C07 oracle on the final global namespace"""
    import re
    names = "|".join(sorted(map(re.escape, spec["decl"]), key=len, reverse=True))
    pat = re.compile(r"^(%s)_([A-Za-z0-9]*?)(_flat)?$" % names)
    for var, obj in list(env.items()):
        if not isinstance(obj, hf.Tensor):
            continue
        m = pat.match(var)
        if not m:
            continue
        if "".join(obj.getRankIds()) != m.group(2):
            return "name-lie", "variable %s holds a tensor with rank ids %r" % (var, obj.getRankIds())
    for t, obj in in_objs.items():
        var = B.tensor_var(spec, t)
        if snapshot(obj) != before[t]:
            return "input-modified", "input tensor object %s changed: now %r, was %r" % (var, snapshot(obj), before[t])
        cur = env.get(var)
        if not isinstance(cur, hf.Tensor) or snapshot(cur) != before[t]:
            return "input-modified", "input variable %s no longer holds the data it held: %r" % (var, cur)
    return None


def run_case(code, spec, extents, ins, sizes=None, policy="M", extra_env=None, check_names=True,
             check_extent=True, outputs_only_last=False, keep_env=False, check_values=True, c07=False, standins=False):
    """Execute compiled emitted code on one input; compare every Einsum output with dense evaluation."""
    hf.reset_state(policy)
    env = base_env(spec, extents, sizes)
    world = None
    if standins:
        from mc.model.standins import World
        world = World()
        hf.State.world = world
        env.update(world.env())
    if extra_env:
        env.update(extra_env)
    in_objs = {}
    for t, data in ins.items():
        obj = make_input_tensor(spec, t, data)
        in_objs[t] = obj
        env[B.tensor_var(spec, t)] = obj
    before = {t: snapshot(o) for t, o in in_objs.items()} if c07 else None
    try:
        exec(code, env)
    except Exception as e:
        tb = traceback.extract_tb(e.__traceback__)
        line = next((f.lineno for f in reversed(tb) if f.filename == "<emitted>"), None)
        return CaseResult(False, "exception", "%s: %s (emitted line %s)" % (type(e).__name__, e, line))
    if c07:
        bad = names_check(spec, env, in_objs, before)
        if bad:
            return CaseResult(False, bad[0], bad[1])
    scal = {s: Poly.var(s) for s in B.scalar_names(spec)}
    expect = dense.eval_cascade(spec["exprs"], ins, extents, scal) if check_values else None
    outs = B.out_names(spec)
    if outputs_only_last:
        outs = outs[-1:]
    got_all = {}
    for o in dict.fromkeys(outs):
        var = B.tensor_var(spec, o)
        obj = env.get(var)
        if not isinstance(obj, hf.Tensor):
            return CaseResult(False, "missing-output", "output variable %s is %s" % (var, type(obj).__name__))
        ro = B.rank_order(spec, o)
        if check_names and obj.getRankIds() != ro:
            return CaseResult(False, "rank-ids", "%s has rank ids %r, expected %r" % (var, obj.getRankIds(), ro))
        if sorted(obj.getRankIds()) != sorted(ro):
            return CaseResult(False, "rank-ids", "%s has rank ids %r, expected a permutation of %r" % (var, obj.getRankIds(), ro))
        got = tensor_to_decl(spec, o, obj)
        got_all[o] = got
        if check_values and got != expect[o]:
            return CaseResult(False, "wrong-value", "%s = %s, Einsum defines %s" % (var, fmt(got), fmt(expect[o])))
        if check_extent:
            decl = spec["decl"][o]
            ids = obj.getRankIds()
            for path in obj.structure():
                for d, c in enumerate(path):
                    c = hf.norm(c)
                    if not isinstance(c, int) or not (0 <= c < extents[ids[d]]):
                        return CaseResult(False, "out-of-extent", "%s holds coordinate %r on rank %s (extent %d)"
                                          % (var, c, ids[d], extents[ids[d]]))
    return CaseResult(True, env=env if keep_env else None, outputs=got_all, world=world)


def fmt(d):
    return "{" + ", ".join("%s: %r" % (",".join(map(str, k)), v) for k, v in sorted(d.items(), key=lambda kv: str(kv[0]))) + "}"


def compile_code(text):
    return compile(text, "<emitted>", "exec")


def sweep(text, spec, extents, sizes=None, policies=("M",), extra_env=None, max_fail=3, **kw):
    """All presence patterns of `extents`.  A pattern fails only if it fails under every policy.
    Returns dict(n, nonempty, fails=[(mask, kind, msg)], per_policy={policy: nfail})."""
    code = compile_code(text)
    cells = cell_list(spec, extents)
    if len(cells) > 17:
        from mc.core.par import HarnessError
        raise HarnessError("refusing to enumerate 2^%d presence patterns (extents %r)" % (len(cells), extents))
    n = 1 << len(cells)
    fails, nonempty = [], 0
    per_policy = {p: 0 for p in policies}
    failmask = []
    distinct_out = set()
    for mask in range(n):
        ins = inputs_of_mask(spec, cells, mask)
        res_p = []
        for p in policies:
            r = run_case(code, spec, extents, ins, sizes=sizes, policy=p, extra_env=extra_env, **kw)
            res_p.append(r)
            if not r.ok:
                per_policy[p] += 1
        if all(not r.ok for r in res_p):
            failmask.append(mask)
            if len(fails) < max_fail:
                fails.append((mask, res_p[0].kind, res_p[0].msg))
        else:
            good = next(r for r in res_p if r.ok)
            if any(good.outputs.values()):
                nonempty += 1
                distinct_out.add(hash(fmt(good.outputs[B.out_names(spec)[-1]])))
    return {"n": n * len(policies), "patterns": n, "nonempty": nonempty, "fails": fails, "failmask": failmask,
            "per_policy": per_policy, "distinct_outputs": len(distinct_out)}


def bitmap_hex(failmask, npat):
    x = 0
    for m in failmask:
        x |= 1 << m
    return "%x" % x
