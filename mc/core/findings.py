"""Known-findings matcher.  /verif/known_findings.json is read-only at run time.

Entry: {"id": "F2", "property": "C04", "status": "open"|"fixed", "what": "...", "line": "...",
        "match": {key: value | {"any_of": [...]} | {"prefix": "..."} | {"subset_of": [...]}}}
A violation matches an *open* entry when every key of entry["match"] is satisfied by violation["sig"].
Fixed entries suppress nothing.
"""
import json
import os
import re

PATH = os.path.join(os.path.dirname(os.path.dirname(os.path.dirname(os.path.abspath(__file__)))), "known_findings.json")


def load(prop):
    if not os.path.exists(PATH):
        return {}
    with open(PATH) as f:
        data = json.load(f)
    return {e["id"]: e for e in data.get("findings", []) if e.get("property") == prop and e.get("status") == "open"}


def _ok(want, got):
    if isinstance(want, dict):
        if "any_of" in want:
            return got in want["any_of"]
        if "prefix" in want:
            return isinstance(got, str) and got.startswith(want["prefix"])
        if "subset_of" in want:
            return isinstance(got, list) and set(map(str, got)) <= set(map(str, want["subset_of"]))
        if "regex" in want:
            return isinstance(got, str) and re.search(want["regex"], got) is not None
        if "contains" in want:
            return isinstance(got, str) and want["contains"] in got
        return False
    return want == got


def matches(entry, sig):
    m = entry.get("match")
    if not m:
        return False
    if "cfg_bitmaps" in m:
        # specific inputs: configuration key -> hex bitmap of the presence patterns known to fail; a run matches when
        # its failing patterns for that configuration are a subset of the known ones
        known = m["cfg_bitmaps"].get(sig.get("cfgkey"))
        if known is None:
            return False
        got = sig.get("bitmap")
        if known == "*":
            return True
        if got is None:
            return False
        if int(got, 16) & ~int(known, 16):
            return False
        m = {k: v for k, v in m.items() if k != "cfg_bitmaps"}
    for k, want in m.items():
        if k not in sig or not _ok(want, sig[k]):
            return False
    return True


def split(violations, known):
    new, matched = [], {}
    for v in violations:
        sig = v.get("sig", {})
        for fid, e in known.items():
            if matches(e, sig):
                matched.setdefault(fid, []).append(v)
                break
        else:
            new.append(v)
    return new, matched
