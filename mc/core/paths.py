"""Where the code under test lives.  Checks always read /repo's current working tree; MC_REPO is only used to point
the same machinery at a scratch worktree when a seeded defect is evaluated."""
import os

REPO = os.environ.get("MC_REPO", "/repo")
VERIF = os.path.dirname(os.path.dirname(os.path.dirname(os.path.abspath(__file__))))
