"""Stateless deviation-bounded exploration of choice sequences (E-SCHED, DESIGN 2.5).

A run is a function run(prefix) -> Execution: it replays `prefix` (an out-of-range or unused prefix entry is a hard
error), then takes choice 0 at every later choice point.  Choice 0 is the canonical/default answer; any other answer is
one deviation.  Executions are enumerated level by level (level k = exactly k deviations); every execution is produced
exactly once.  Exploration stops when a level is empty (the whole space was enumerated: exhaustive) or when the budget
of runs is exhausted (the last *completed* level is reported as the completed deviation bound).
"""
from mc.core.par import HarnessError


class Chooser:
    """handed to the instrumented code; owns every choice"""

    def __init__(self, prefix=()):
        self.prefix = list(prefix)
        self.choices = []
        self.arity = []
        self.labels = []

    def choose(self, n, label=""):
        if n <= 1:
            return 0
        i = len(self.choices)
        if i < len(self.prefix):
            c = self.prefix[i]
            if not (0 <= c < n):
                raise HarnessError("replay divergence: choice %d of %d options at point %d (%s)" % (c, n, i, label))
        else:
            c = 0
        self.choices.append(c)
        self.arity.append(n)
        self.labels.append(label)
        return c

    def finish(self):
        if len(self.choices) < len(self.prefix):
            raise HarnessError("replay divergence: prefix has %d choices, the execution only reached %d choice points"
                               % (len(self.prefix), len(self.choices)))


def children(prefix_len, choices, arity):
    """prefixes with exactly one more deviation, deviating at a point at or after prefix_len"""
    out = []
    for i in range(prefix_len, len(choices)):
        for alt in range(1, arity[i]):
            out.append(list(choices[:i]) + [alt])
    return out


def explore(run_many, max_dev, budget):
    """run_many(list of prefixes) -> list of (choices, arity, payload) in the same order.
    Returns dict(levels=[n per level], completed_bound, exhaustive, executions=[(prefix, payload)...])."""
    level = [[]]
    executions = []
    levels = []
    completed = -1
    exhaustive = False
    total = 0
    d = 0
    while level:
        if d > max_dev or total + len(level) > budget:
            break
        results = run_many(level)
        total += len(level)
        nxt = []
        for prefix, (choices, arity, payload) in zip(level, results):
            executions.append((prefix, payload))
            nxt.extend(children(len(prefix), choices, arity))
        levels.append(len(level))
        completed = d
        level = nxt
        d += 1
    if not level:
        exhaustive = True
    return {"levels": levels, "completed_bound": completed, "exhaustive": exhaustive, "executions": executions,
            "next_level_size": len(level)}


def explore_many(n_specs, run_items, max_dev, budget):
    """Level-synchronous exploration of several specifications at once (so that one level of all specifications can be run
    in parallel).  run_items(list of (spec index, prefix)) -> list of (choices, arity, payload).  A specification whose next
    level would exceed its budget stops there (its completed bound is the last finished level)."""
    level = {i: [[]] for i in range(n_specs)}
    info = [{"levels": [], "completed_bound": -1, "exhaustive": False, "executions": [], "runs": 0} for _ in range(n_specs)]
    d = 0
    while level and d <= max_dev:
        items = []
        for i in sorted(level):
            if info[i]["runs"] + len(level[i]) > budget:
                continue
            items.extend((i, p) for p in level[i])
        if not items:
            break
        results = run_items(items)
        nxt = {}
        for (i, prefix), (choices, arity, payload) in zip(items, results):
            info[i]["executions"].append((prefix, payload))
            info[i]["runs"] += 1
            nxt.setdefault(i, []).extend(children(len(prefix), choices, arity))
        for i in {i for i, _ in items}:
            info[i]["levels"].append(len(level[i]))
            info[i]["completed_bound"] = d
            if not nxt.get(i):
                info[i]["exhaustive"] = True
        level = {i: ps for i, ps in nxt.items() if ps}
        d += 1
    return info
