"""Fork-based parallel map over a complete work list (16 cores).

The work list is always enumerated completely; VERIF_SEED only permutes the order in which it is
sharded, never its content.
"""
import multiprocessing as mp
import os
import random
import sys
import traceback

_FN = None


def _call(chunk):
    out = []
    for idx, item in chunk:
        try:
            out.append((idx, _FN(item)))
        except BaseException as e:  # a crash of the harness itself is reported, never swallowed
            out.append((idx, {"__harness_error__": "%s: %s\n%s" % (type(e).__name__, e, traceback.format_exc())}))
    return out


def pmap(fn, items, jobs=None, seed=0, chunk=None, progress=None):
    """Apply fn to every item; returns results in the order of items.

    fn must be picklable by reference (module level) -- we fork, so closures over module state work
    as long as fn itself is a module-level function.
    """
    global _FN
    items = list(items)
    n = len(items)
    jobs = jobs or int(os.environ.get("MC_JOBS", "0")) or min(16, os.cpu_count() or 1)
    order = list(range(n))
    random.Random(seed).shuffle(order)
    if chunk is None:
        chunk = max(1, min(64, n // (jobs * 8) or 1))
    chunks = [[(i, items[i]) for i in order[k:k + chunk]] for k in range(0, n, chunk)]
    results = [None] * n
    _FN = fn
    if jobs <= 1 or n <= 1:
        for c in chunks:
            for idx, r in _call(c):
                results[idx] = r
        return results
    ctx = mp.get_context("fork")
    done = 0
    with ctx.Pool(jobs) as pool:
        for part in pool.imap_unordered(_call, chunks):
            for idx, r in part:
                results[idx] = r
            done += len(part)
            if progress and sys.stderr.isatty():
                sys.stderr.write("\r%s %d/%d" % (progress, done, n))
    for r in results:
        if isinstance(r, dict) and "__harness_error__" in r:
            raise HarnessError(r["__harness_error__"])
    return results


class HarnessError(Exception):
    """The machinery failed (not a verdict about the property)."""
