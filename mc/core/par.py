"""Fork-based parallel map over a complete work list (16 cores).

The work list is always enumerated completely; VERIF_SEED only permutes the order in which it is
sharded, never its content.
"""
import multiprocessing as mp
import os
import random
import sys
import traceback

_FN = None


def _call(chunk):
    out = []
    for idx, item in chunk:
        try:
            out.append((idx, _FN(item)))
        except BaseException as e:  # a crash of the harness itself is reported, never swallowed
            out.append((idx, {"__harness_error__": "%s: %s\n%s" % (type(e).__name__, e, traceback.format_exc())}))
    return out


def _child(conn, chunk):
    try:
        conn.send(_call(chunk))
    finally:
        conn.close()
        os._exit(0)


def pmap(fn, items, jobs=None, seed=0, chunk=None, progress=None, fresh=False):
    """Apply fn to every item; returns results in the order of items.

    fn must be picklable by reference (module level) -- we fork, so closures over module state work
    as long as fn itself is a module-level function.
    """
    global _FN
    items = list(items)
    n = len(items)
    jobs = jobs or int(os.environ.get("MC_JOBS", "0")) or min(16, os.cpu_count() or 1)
    order = list(range(n))
    random.Random(seed).shuffle(order)
    if fresh:
        chunk = 1       # one forked process per item: every item starts from the parent's interpreter state
    if chunk is None:
        chunk = max(1, min(64, n // (jobs * 8) or 1))
    chunks = [[(i, items[i]) for i in order[k:k + chunk]] for k in range(0, n, chunk)]
    results = [None] * n
    _FN = fn
    if (jobs <= 1 or n <= 1) and not fresh:
        for c in chunks:
            for idx, r in _call(c):
                results[idx] = r
        return results
    ctx = mp.get_context("fork")
    done = 0
    # keep the children's garbage collector away from the parent's heap (otherwise every collection in a child copies it)
    import gc
    gc.collect()
    gc.freeze()
    try:
        return _pmap_forked(ctx, chunks, results, jobs, fresh, progress, n)
    finally:
        gc.unfreeze()


def _pmap_forked(ctx, chunks, results, jobs, fresh, progress, n):
    done = 0
    if fresh:
        # one forked child per item (every item starts from the parent's interpreter state)
        import gc
        gc.collect()
        pending = list(chunks)
        running = []
        while pending or running:
            while pending and len(running) < jobs:
                c = pending.pop()
                rd, wr = ctx.Pipe(duplex=False)
                pr = ctx.Process(target=_child, args=(wr, c))
                pr.start()
                wr.close()
                running.append((pr, rd))
            still = []
            progressed = False
            for pr, rd in running:
                if rd.poll(0.005):
                    try:
                        part = rd.recv()
                    except EOFError:
                        part = [(idx, {"__harness_error__": "worker died"}) for idx, _ in []]
                    for idx, r in part:
                        results[idx] = r
                    pr.join()
                    rd.close()
                    progressed = True
                elif not pr.is_alive() and not rd.poll(0):
                    # (poll again: the child may have reported and exited between the two tests above)
                    pr.join()
                    rd.close()
                    raise HarnessError("a forked worker died without reporting (exit code %s)" % pr.exitcode)
                else:
                    still.append((pr, rd))
            running = still
        for r in results:
            if isinstance(r, dict) and "__harness_error__" in r:
                raise HarnessError(r["__harness_error__"])
        return results
    with ctx.Pool(max(1, jobs)) as pool:
        for part in pool.imap_unordered(_call, chunks):
            for idx, r in part:
                results[idx] = r
            done += len(part)
            if progress and sys.stderr.isatty():
                sys.stderr.write("\r%s %d/%d" % (progress, done, n))
    for r in results:
        if isinstance(r, dict) and "__harness_error__" in r:
            raise HarnessError(r["__harness_error__"])
    return results


class HarnessError(Exception):
    """The machinery failed (not a verdict about the property)."""
