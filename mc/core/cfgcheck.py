"""One configuration = (structured spec, extent vectors[, symbolic sizes, halo policies]).
Worker shared by C01-C04, C07: compile with the real compiler, run every presence pattern of every extent
vector on the reference model, compare with the dense evaluation."""
import json
import time

from mc.core import execspec as X
from mc.spec import build as B


def check_cfg(cfg):
    """cfg keys: tag, spec, extents (list of dict), optional sizes (dict), policies, allowed_rejects
    (list of substrings of ValueError messages that the property *states* as rejections), mode."""
    spec = cfg["spec"]
    out = {"tag": cfg["tag"], "status": "ok", "n": 0, "nonempty": 0, "patterns": 0, "fail": None, "reject": None,
           "distinct_outputs": 0, "per_policy": {}}
    t0 = time.time()
    try:
        h = B.compile_spec(spec, cfg.get("mode", "plain"))
        text = str(h)
    except Exception as e:
        msg = "%s: %s" % (type(e).__name__, e)
        for pat in cfg.get("allowed_rejects", ()):
            if isinstance(e, ValueError) and pat in str(e):
                out["status"] = "rejected"
                out["reject"] = pat
                return out
        out["status"] = "fail"
        out["fail"] = {"kind": "compile-exception", "msg": msg, "extents": None, "mask": None, "text": None}
        return out
    out["text_hash"] = hash(text)
    out["compile_s"] = time.time() - t0
    try:
        X.compile_code(text)
    except SyntaxError as e:
        out["status"] = "fail"
        out["fail"] = {"kind": "syntax-error", "msg": str(e), "extents": None, "mask": None, "text": text}
        return out
    extra = cfg.get("check", {})
    out["fails"] = []
    for ext in cfg["extents"]:
        r = X.sweep(text, spec, ext, sizes=cfg.get("sizes"), policies=tuple(cfg.get("policies", ("M",))), **extra)
        out["n"] += r["n"]
        out["patterns"] += r["patterns"]
        out["nonempty"] += r["nonempty"]
        out["distinct_outputs"] += r["distinct_outputs"]
        for p, k in r["per_policy"].items():
            out["per_policy"][p] = out["per_policy"].get(p, 0) + k
        if r["fails"]:
            mask, kind, msg = r["fails"][0]
            out["status"] = "fail"
            f = {"kind": kind, "msg": msg, "extents": ext, "mask": mask, "text": text,
                 "nfail": len(r["failmask"]), "bitmap": X.bitmap_hex(r["failmask"], r["patterns"]),
                 "kinds": sorted({k for _, k, _ in r["fails"]})}
            out["fails"].append(f)
            if out["fail"] is None:
                out["fail"] = f
    return out


def cfg_key(spec, extents, sizes=None):
    import hashlib
    k = json.dumps({"exprs": [B.render_expr(e) for e in spec["exprs"]], "mapping": spec.get("mapping"), "decl": spec["decl"],
                    "extents": extents, "sizes": sizes}, sort_keys=True)
    return hashlib.sha1(k.encode()).hexdigest()[:16]


def violation_from(prop, cfg, res, f=None):
    f = f or res["fail"]
    spec = cfg["spec"]
    sig = {"kind": f["kind"], "exprs": [B.render_expr(e) for e in spec["exprs"]],
           "mapping": json.dumps(spec.get("mapping"), sort_keys=True), "decl": json.dumps(spec["decl"], sort_keys=True),
           "extents": json.dumps(f["extents"], sort_keys=True) if f["extents"] else None,
           "bitmap": f.get("bitmap")}
    sig["cfgkey"] = cfg_key(spec, f["extents"], cfg.get("sizes"))
    if f["kind"] in ("exception", "compile-exception"):
        sig["error"] = f["msg"].split(" (emitted line")[0]
    if cfg.get("sizes"):
        sig["sizes"] = json.dumps(cfg["sizes"], sort_keys=True)
    msg = "%s [%s]\n%s\nmapping: %s\nextents: %s%s  first failing pattern mask=%s (%s failing pattern(s))\n%s" % (
        f["kind"], cfg["tag"], "; ".join(sig["exprs"]), sig["mapping"], f["extents"],
        (" sizes: %s" % cfg["sizes"]) if cfg.get("sizes") else "", f["mask"], f.get("nfail"), f["msg"])
    if f.get("text"):
        msg += "\n--- emitted program ---\n" + f["text"]
    case = {"cfg": {k: v for k, v in cfg.items()}, "extents": f["extents"], "mask": f["mask"]}
    return {"sig": sig, "msg": msg, "case": case}


def replay_cfg(prop, case):
    cfg = dict(case["cfg"])
    if case.get("extents"):
        cfg["extents"] = [case["extents"]]
    res = check_cfg(cfg)
    if res["status"] == "fail":
        return [violation_from(prop, cfg, res, f) for f in (res.get("fails") or [res["fail"]])]
    return []


def aggregate(work, results, prop, level="exploration", rule=""):
    viols, n, pats, nonempty, rejected, texts = [], 0, 0, 0, {}, set()
    by_tag = {}
    distinct_out = 0
    for cfg, r in zip(work, results):
        n += r["n"]
        pats += r["patterns"]
        nonempty += r["nonempty"]
        distinct_out += r["distinct_outputs"]
        tag = cfg["tag"].split("/")[0]
        by_tag[tag] = by_tag.get(tag, 0) + 1
        if "text_hash" in r:
            texts.add(r["text_hash"])
        if r["status"] == "rejected":
            rejected[r["reject"]] = rejected.get(r["reject"], 0) + 1
        elif r["status"] == "fail":
            for f in (r.get("fails") or [r["fail"]]):
                viols.append(violation_from(prop, cfg, r, f))
    cov = {
        "evaluations": n,
        "configurations": len(work),
        "distinct_emitted_texts": len(texts),
        "distinct_nontrivial": distinct_out,
        "executions_with_nonempty_output": nonempty,
        "rule": rule,
        "configurations_by_template": by_tag,
        "stated_rejections": rejected,
        "exhaustive": True,
    }
    return cov, viols
