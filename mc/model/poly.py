"""Formal values: polynomials with integer coefficients over input-cell variables (DESIGN 2.3)."""
from mc.model.refhifiber import Box


class Poly:
    """dict monomial (sorted tuple of variable names) -> integer coefficient; exact."""
    __slots__ = ("t",)

    def __init__(self, t=None):
        self.t = t or {}

    @staticmethod
    def var(name):
        return Poly({(name,): 1})

    @staticmethod
    def lift(x):
        if isinstance(x, Poly):
            return x
        if isinstance(x, Box):
            return Poly.lift(x.v)
        if isinstance(x, (int, float)):
            if x == 0:
                return Poly()
            return Poly({(): x})
        raise TypeError("cannot lift %r to a polynomial" % (x,))

    def __add__(self, o):
        o = Poly.lift(o)
        t = dict(self.t)
        for m, c in o.t.items():
            n = t.get(m, 0) + c
            if n == 0:
                t.pop(m, None)
            else:
                t[m] = n
        return Poly(t)
    __radd__ = __add__

    def __mul__(self, o):
        o = Poly.lift(o)
        t = {}
        for m1, c1 in self.t.items():
            for m2, c2 in o.t.items():
                m = tuple(sorted(m1 + m2))
                n = t.get(m, 0) + c1 * c2
                if n == 0:
                    t.pop(m, None)
                else:
                    t[m] = n
        return Poly(t)
    __rmul__ = __mul__

    def __eq__(self, o):
        try:
            return self.t == Poly.lift(o).t
        except TypeError:
            return False

    def __ne__(self, o):
        return not self.__eq__(o)

    def __bool__(self):
        raise TypeError("formal value used as a truth value")

    def __hash__(self):
        return hash(frozenset(self.t.items()))

    def key(self):
        return tuple(sorted(self.t.items()))

    def __repr__(self):
        if not self.t:
            return "0"
        return " + ".join(("%d*" % c if c != 1 else "") + ("*".join(m) if m else "1") for m, c in sorted(self.t.items()))


def is_zero(v):
    return Poly.lift(v).t == {}
