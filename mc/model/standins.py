"""Stand-ins for the metrics / graphics API of HiFiber: Metrics, Traffic, Compute, Format, *Intersector,
createCanvas/displayCanvas.  They never influence the computed tensors; every call is recorded, and every number they
hand out is a *distinct prime* (memoised per key), so that no sum / max / quotient of the dump can be right by accident
(C14)."""
from mc.model import refhifiber as hf


def _primes():
    n = 101
    while True:
        if all(n % p for p in range(2, int(n ** 0.5) + 1)):
            yield n
        n += 2


class World:
    """one per execution"""

    def __init__(self):
        self.events = []
        self._gen = _primes()
        self.values = {}
        self.collecting = None
        self.last_prefix = None
        self.n_intersectors = 0
        self.canvases = []

    def prime(self, *key):
        if key not in self.values:
            self.values[key] = next(self._gen)
        return self.values[key]

    def env(self):
        w = self

        class IterNum:
            def copy(self_):
                return IterNum()

        class Metrics:
            @staticmethod
            def beginCollect(prefix=None, *a, **k):
                w.events.append(("beginCollect", prefix, w.collecting is not None))
                w.collecting = prefix

            @staticmethod
            def endCollect(*a, **k):
                w.events.append(("endCollect", w.collecting))
                w.last_prefix = w.collecting
                w.collecting = None

            @staticmethod
            def trace(rank, type_=None, consumable=False, **k):
                w.events.append(("trace", rank, type_, consumable))

            @staticmethod
            def registerRank(rank, *a, **k):
                w.events.append(("registerRank", rank))

            @staticmethod
            def matchRanks(a, b):
                w.events.append(("matchRanks", a, b))

            @staticmethod
            def associateShape(rank, shape):
                w.events.append(("associateShape", rank, tuple(shape)))

            @staticmethod
            def getIter():
                return IterNum()

            @staticmethod
            def consumeTrace(rank, type_):
                w.events.append(("consumeTrace", rank, type_))
                return ("trace", rank, type_)

            @staticmethod
            def dump():
                class D(dict):
                    def __missing__(self_, k):
                        return _Level(w, ("dump", w.last_prefix, k))
                return D()

        class Traffic:
            @staticmethod
            def filterTrace(a, b, c):
                w.events.append(("filterTrace", a, b, c))

            @staticmethod
            def buffetTraffic(bindings, formats, traces, capacity, width, rank_map=None):
                i = sum(1 for e in w.events if e[0] in ("buffetTraffic", "cacheTraffic"))
                w.events.append(("buffetTraffic", i, _freeze(bindings), _freeze(traces), capacity, width, _freeze(rank_map)))
                return [_Level(w, ("traffic", w.last_prefix, i)), _Level(w, ("traffic-extra", w.last_prefix, i))]

            @staticmethod
            def cacheTraffic(bindings, formats, traces, capacity, width, rank_map=None):
                i = sum(1 for e in w.events if e[0] in ("buffetTraffic", "cacheTraffic"))
                w.events.append(("cacheTraffic", i, _freeze(bindings), _freeze(traces), capacity, width, _freeze(rank_map)))
                return [_Level(w, ("traffic", w.last_prefix, i)), _Level(w, ("traffic-extra", w.last_prefix, i))]

        class Compute:
            @staticmethod
            def numIters(fname):
                w.events.append(("numIters", fname))
                return w.prime("numIters", fname)

            @staticmethod
            def numSwaps(tensor, depth, radix, next_latency):
                w.events.append(("numSwaps", tuple(tensor.getRankIds()), depth, radix, next_latency))
                return w.prime("numSwaps", w.last_prefix, tuple(tensor.getRankIds()), depth)

        def Format(tensor, spec):
            if not isinstance(tensor, hf.Tensor):
                raise hf.ModelError("Format() of %s" % type(tensor).__name__)
            w.events.append(("Format", tuple(tensor.getRankIds()), _freeze(spec)))
            return ("format", tuple(tensor.getRankIds()))

        def intersector(kind):
            class I:
                def __init__(self_):
                    w.n_intersectors += 1
                    self_.idx = w.n_intersectors
                    self_.fed = 0
                    self_.prefix = w.collecting
                    w.events.append(("intersector", kind, self_.idx, w.collecting))

                def addTraces(self_, *traces):
                    self_.fed += 1
                    w.events.append(("addTraces", self_.idx, tuple(traces)))

                def getNumIntersects(self_):
                    w.events.append(("getNumIntersects", self_.idx, self_.fed))
                    return w.prime("isect", self_.prefix, self_.idx)
            I.__name__ = kind
            return I

        class Canvas:
            def __init__(self_, tensors, kw):
                self_.tensors = tensors
                self_.rank_ids = [t.getRankIds() if isinstance(t, hf.Tensor) else None for t in tensors]
                self_.kw = kw
                self_.activities = []

            def addActivity(self_, *points, **kw):
                self_.activities.append((points, kw, hf.State.updates))

        def createCanvas(*tensors, **kw):
            c = Canvas(tensors, kw)
            w.canvases.append(c)
            w.events.append(("createCanvas", len(tensors)))
            return c

        def displayCanvas(c, *a, **kw):
            w.events.append(("displayCanvas", isinstance(c, Canvas)))

        return {"Metrics": Metrics, "Traffic": Traffic, "Compute": Compute, "Format": Format,
                "LeaderFollowerIntersector": intersector("LeaderFollowerIntersector"),
                "SkipAheadIntersector": intersector("SkipAheadIntersector"),
                "TwoFingerIntersector": intersector("TwoFingerIntersector"),
                "createCanvas": createCanvas, "displayCanvas": displayCanvas}


class _Level:
    """nested lookup that ends in a distinct prime: traffic[0]["A"]["read"], Metrics.dump()["Compute"]["payload_mul"]"""

    def __init__(self, w, key):
        self.w, self.key = w, key

    def __getitem__(self, k):
        key = self.key + (k,)
        if k in ("read", "write") or (len(key) >= 4 and key[0] == "dump"):
            return self.w.prime(*key)
        return _Level(self.w, key)


def _freeze(x):
    if isinstance(x, dict):
        return tuple(sorted((_freeze(k), _freeze(v)) for k, v in x.items()))
    if isinstance(x, (list, tuple)):
        return tuple(_freeze(v) for v in x)
    return x
