"""Independent dense evaluator of (cascades of) Einsums from the *structured* specification.

expr = {"out": (name, [index vars]), "terms": [(kind, factors, sel)]}
  kind: "times" | "take";  factor: ("t", tensor, [affine]) | ("v", scalar name);  affine: {index var: coef}
Index variable v ranges over range(extents[v.upper()]); a term contributes where all its tensor accesses
are present; only output coordinates inside the declared extents exist.
"""
import itertools

from mc.model.poly import Poly


def expr_vars(expr):
    vs = []
    for v in expr["out"][1]:
        if v not in vs:
            vs.append(v)
    for _, factors, _ in expr["terms"]:
        for f in factors:
            if f[0] == "t":
                for a in f[2]:
                    for v in a:
                        if v not in vs:
                            vs.append(v)
    return vs


def eval_expr(expr, tensors, extents, scalars):
    """tensors: name -> {coord tuple (declared order): Poly}; returns {coord tuple: Poly} for the output"""
    idx_vars = expr_vars(expr)
    ranges = [range(extents[v.upper()]) for v in idx_vars]
    out = {}
    oidx = expr["out"][1]
    for vals in itertools.product(*ranges):
        env = dict(zip(idx_vars, vals))
        total = Poly()
        for kind, factors, sel in expr["terms"]:
            fv = []
            present = True
            for f in factors:
                if f[0] == "v":
                    fv.append(Poly.lift(scalars[f[1]]))
                else:
                    coord = tuple(sum(c * env[v] for v, c in a.items()) for a in f[2])
                    val = tensors[f[1]].get(coord)
                    if val is None:
                        present = False
                        break
                    fv.append(Poly.lift(val))
            if not present:
                continue
            if kind == "times":
                p = Poly.lift(1)
                for x in fv:
                    p = p * x
            else:
                p = fv[sel]
            total = total + p
        if total.t:
            oc = tuple(env[v] for v in oidx)
            out[oc] = out.get(oc, Poly()) + total
    return {k: v for k, v in out.items() if v.t}


def eval_cascade(exprs, inputs, extents, scalars):
    """returns name -> {coord: Poly} for every tensor (inputs and every Einsum output, last write wins)"""
    tensors = {k: dict(v) for k, v in inputs.items()}
    for e in exprs:
        tensors[e["out"][0]] = eval_expr(e, tensors, extents, scalars)
    return tensors
