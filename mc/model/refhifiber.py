"""Reference HiFiber (mini fibertree) model: exactly the API surface teaal-compiler can emit.

Semantics are documented in DESIGN.md section 2.2.  The model is deliberately boring: fibers are sorted
coordinate/payload lists, every tensor transformation rebuilds from the point list.
"""
import bisect


class ModelError(Exception):
    """Emitted code used the HiFiber API in a way the model does not define."""


class State:
    halo_policy = "M"    # "M": partition exists iff an element lies in its own [s, s+step); "H": iff window non-empty
    updates = 0          # number of += / <<= executed on leaf payloads
    events = None        # optional list collecting ("update",) events for C16
    world = None         # optional stand-in world (mc/model/standins.py) recording <fiber>.trace(...) calls


def reset_state(policy="M"):
    State.halo_policy = policy
    State.updates = 0
    State.events = None
    State.world = None


def norm(c):
    if isinstance(c, tuple):
        return tuple(norm(x) for x in c)
    if isinstance(c, float) and c == int(c):
        return int(c)
    return c


class Box:
    """Leaf payload (mutable).  Comparisons / truth tests are trapped: emitted programs must not branch
    on payload values (data-independence argument, DESIGN 2.3)."""
    __slots__ = ("v",)

    def __init__(self, v=0):
        self.v = v

    @staticmethod
    def val(x):
        return x.v if isinstance(x, Box) else x

    def __add__(self, o): return self.v + Box.val(o)
    def __radd__(self, o): return Box.val(o) + self.v
    def __mul__(self, o): return self.v * Box.val(o)
    def __rmul__(self, o): return Box.val(o) * self.v

    def __iadd__(self, o):
        self.v = self.v + Box.val(o)
        State.updates += 1
        if State.events is not None:
            State.events.append(("update", id(self)))
        return self

    def __ilshift__(self, o):
        self.v = Box.val(o)
        State.updates += 1
        if State.events is not None:
            State.events.append(("update", id(self)))
        return self

    def __bool__(self):
        raise ModelError("payload value used as a truth value")

    def __eq__(self, o):
        raise ModelError("payload value compared")

    __lt__ = __le__ = __gt__ = __ge__ = __ne__ = __eq__
    __hash__ = object.__hash__

    def __iter__(self):
        raise ModelError("leaf payload destructured / iterated as if it were a fiber or tuple")

    def __repr__(self): return "Box(%r)" % (self.v,)


def is_empty(p):
    if isinstance(p, Box):
        v = p.v
        if isinstance(v, (int, float)):
            return v == 0
        return not v.t
    if isinstance(p, Fiber):
        return all(is_empty(x) for x in p.payloads)
    return False


def zero_like(below):
    """structural zero of a payload that has `below` ranks beneath it (0 = leaf)"""
    if below == 0:
        return Box(0)
    return Fiber([], [], below - 1)


class FiberLike:
    below = 0  # number of ranks below this one

    def items(self):
        raise NotImplementedError

    def __iter__(self):
        return iter(self.items())

    def __and__(self, o): return And(_fl(self), _fl(o))
    def __or__(self, o): return Or(_fl(self), _fl(o))

    def project(self, trans_fn=None, interval=None, **kw):
        _kw(kw, "project")
        return Project(self, trans_fn, interval)

    def prune(self, trans_fn=None, **kw):
        _kw(kw, "prune")
        return Prune(self, trans_fn)

    def __len__(self):
        return len(self.items())

    def getCoords(self):
        return [c for c, _ in self.items()]

    def __bool__(self):
        return True


def _kw(kw, what, allowed=("trace", "rank_id")):
    for k in kw:
        if k not in allowed:
            raise ModelError("unknown keyword %s= for %s" % (k, what))


def _fl(x):
    if not isinstance(x, FiberLike):
        raise ModelError("fiber operator applied to %s" % type(x).__name__)
    return x


class Fiber(FiberLike):
    shape = None   # optional tuple of extents for this rank and the ranks below (from Tensor(shape=...))

    def __init__(self, coords=None, payloads=None, below=0, shape=None):
        self.coords = list(coords or [])
        self.payloads = list(payloads or [])
        self.below = below
        if shape is not None:
            self.shape = tuple(shape)

    def items(self):
        # fibertree iterates over non-default elements only (iterOccupancy): an element created by '<<' /
        # getPayloadRef that never received a value, or an explicitly stored zero, is skipped
        return [(c, p) for c, p in zip(self.coords, self.payloads) if not is_empty(p)]

    def __len__(self): return len(self.items())
    def getCoords(self): return [c for c, _ in self.items()]

    def _key(self, c):
        return c

    def _ref(self, c):
        i = bisect.bisect_left(self.coords, c)
        if i < len(self.coords) and self.coords[i] == c:
            return self.payloads[i]
        if self.shape is not None and isinstance(c, int) and not (0 <= c < self.shape[0]):
            raise ModelError("coordinate %r inserted into a fiber of shape %r" % (c, self.shape[0]))
        p = zero_like(self.below)
        if self.shape is not None and isinstance(p, Fiber):
            p.shape = self.shape[1:]
        self.coords.insert(i, c)
        self.payloads.insert(i, p)
        return p

    def _get(self, c):
        i = bisect.bisect_left(self.coords, c)
        if i < len(self.coords) and self.coords[i] == c:
            return self.payloads[i]
        return None

    def getPayloadRef(self, *cs, **kw):
        _kw(kw, "getPayloadRef")
        f = self
        for c in cs:
            if not isinstance(f, Fiber):
                raise ModelError("getPayloadRef below the leaf")
            f = f._ref(c)
        return f

    def getPayload(self, *cs, **kw):
        _kw(kw, "getPayload")
        f = self
        for c in cs:
            if not isinstance(f, Fiber):
                raise ModelError("getPayload below the leaf")
            nxt = f._get(c)
            if nxt is None:
                nxt = zero_like(f.below)
            f = nxt
        return f

    def __lshift__(self, o): return Populate(self, _fl(o))

    def iterRangeShapeRef(self, start, end, step=1, **kw):
        _kw(kw, "iterRangeShapeRef")
        for x in (start, end, step):
            if not isinstance(x, int):
                raise ModelError("iterRangeShapeRef with non-integer bound %r" % (x,))
        out = []
        for c in range(start, end, step):
            out.append((c, self._ref(c)))
        return Lazy(out, self.below)

    def trace(self, *a, **kw):
        if State.world is not None:
            State.world.events.append(("fiber.trace",) + tuple(a) + (tuple(sorted(kw)),))
        return None

    @staticmethod
    def fromLazy(it):
        its = list(_fl(it).items())
        return Fiber([c for c, _ in its], [p for _, p in its], shape_of(it))

    @staticmethod
    def intersection(*fibers, style=None, **kw):
        _kw(kw, "Fiber.intersection")
        if style not in ("leader-follower", "two-finger", "skip-ahead", None):
            raise ModelError("unknown intersection style %r" % (style,))
        e = _fl(fibers[-1])
        for f in reversed(fibers[:-1]):
            e = And(_fl(f), e)
        return e

    def copy(self):
        return Fiber(list(self.coords), [p.copy() if isinstance(p, Fiber) else Box(p.v) for p in self.payloads], self.below)

    def __repr__(self):
        return "F(" + ", ".join("%r: %r" % cp for cp in zip(self.coords, self.payloads)) + ")"


class Lazy(FiberLike):
    def __init__(self, its, below):
        self._its = its
        self.below = below

    def items(self): return self._its


def shape_of(fl):
    """payload shape descriptor of a fiber-like: int (ranks below) or tuple structure"""
    if isinstance(fl, And):
        return (shape_of(fl.a), shape_of(fl.b))
    if isinstance(fl, Or):
        return ("mask", shape_of(fl.a), shape_of(fl.b))
    if isinstance(fl, Populate):
        return (shape_of(fl.z), shape_of(fl.o))
    if isinstance(fl, (Project, Prune)):
        return shape_of(fl.f)
    return fl.below


def zero_shape(s):
    if isinstance(s, tuple):
        if s and s[0] == "mask":
            return ("", zero_shape(s[1]), zero_shape(s[2]))
        return tuple(zero_shape(x) for x in s)
    return zero_like(s)


class And(FiberLike):
    def __init__(self, a, b): self.a, self.b = a, b

    def items(self):
        bi = dict((c, p) for c, p in self.b.items())
        return [(c, (p, bi[c])) for c, p in self.a.items() if c in bi]


class Or(FiberLike):
    def __init__(self, a, b): self.a, self.b = a, b

    def items(self):
        ai = dict(self.a.items())
        bi = dict(self.b.items())
        out = []
        for c in sorted(set(ai) | set(bi)):
            if c in ai and c in bi:
                out.append((c, ("AB", ai[c], bi[c])))
            elif c in ai:
                out.append((c, ("A", ai[c], zero_shape(shape_of(self.b)))))
            else:
                out.append((c, ("B", zero_shape(shape_of(self.a)), bi[c])))
        return out


class Populate(FiberLike):
    def __init__(self, z, o):
        if not isinstance(z, Fiber):
            raise ModelError("'<<' onto %s" % type(z).__name__)
        self.z, self.o = z, o

    def items(self):
        return [(c, (self.z._ref(c), p)) for c, p in self.o.items()]


class Project(FiberLike):
    def __init__(self, f, fn, interval):
        if fn is None:
            raise ModelError("project without trans_fn")
        self.f, self.fn, self.interval = f, fn, interval

    def items(self):
        out = []
        for c, p in self.f.items():
            nc = self.fn(c)
            if self.interval is not None and not (self.interval[0] <= nc < self.interval[1]):
                continue
            out.append((nc, p))
        out.sort(key=lambda cp: cp[0])
        return out


class Prune(FiberLike):
    def __init__(self, f, fn): self.f, self.fn = f, fn

    def items(self):
        return [(c, p) for i, (c, p) in enumerate(self.f.items()) if self.fn(i, c, p)]


class Tensor:
    def __init__(self, rank_ids=None, name=None, shape=None, root=None, **kw):
        if rank_ids is None:
            raise ModelError("Tensor() without rank_ids")
        for k in kw:
            raise ModelError("unknown keyword %s= for Tensor" % k)
        self.rank_ids = list(rank_ids)
        self.name = name
        if shape is not None:
            shape = list(shape)
            if len(shape) != len(self.rank_ids):
                raise ModelError("Tensor shape %r does not match rank_ids %r" % (shape, rank_ids))
            for s in shape:
                if not isinstance(s, int):
                    raise ModelError("Tensor shape entry %r is not an integer" % (s,))
        self.shape = shape
        if root is None:
            root = zero_like(len(self.rank_ids))
            if shape is not None and isinstance(root, Fiber):
                root.shape = tuple(shape)
        self.root = root

    @staticmethod
    def fromFiber(rank_ids=None, fiber=None, name=None, **kw):
        _kw(kw, "Tensor.fromFiber", allowed=("shape",))
        if not isinstance(fiber, Fiber):
            raise ModelError("Tensor.fromFiber of %s" % type(fiber).__name__)
        if fiber.below != len(rank_ids) - 1:
            raise ModelError("Tensor.fromFiber: fiber has %d ranks, rank_ids %r" % (fiber.below + 1, rank_ids))
        return Tensor(rank_ids=rank_ids, name=name, root=fiber)

    def getRoot(self): return self.root
    def getRankIds(self): return list(self.rank_ids)

    def setRankIds(self, rank_ids=None):
        if rank_ids is None or len(rank_ids) != len(self.rank_ids):
            raise ModelError("setRankIds(%r) on tensor with ranks %r" % (rank_ids, self.rank_ids))
        self.rank_ids = list(rank_ids)

    # --- helpers (not part of the emitted API)
    def points(self):
        """list of (coord tuple, value)"""
        out = []

        def rec(f, pre):
            if isinstance(f, Box):
                out.append((tuple(pre), f.v))
                return
            for c, p in zip(f.coords, f.payloads):
                rec(p, pre + [c])
        rec(self.root, [])
        return out

    def structure(self):
        """every coordinate path incl. empty sub-fibers (used by 'no element outside the extent')"""
        out = []

        def rec(f, pre):
            if isinstance(f, Box):
                return
            for c, p in zip(f.coords, f.payloads):
                out.append(tuple(pre + [c]))
                rec(p, pre + [c])
        rec(self.root, [])
        return out

    @staticmethod
    def fromPoints(rank_ids, pts, name=None, add=False, shape=None):
        t = Tensor(rank_ids=rank_ids, name=name, shape=shape)
        for cs, v in pts:
            if len(rank_ids) == 0:
                t.root.v = t.root.v + v if add else v
                continue
            b = t.root.getPayloadRef(*cs)
            b.v = (b.v + v) if add else v
        return t

    def copy(self):
        return Tensor.fromPoints(self.rank_ids, self.points(), self.name, shape=self.shape)

    def swizzleRanks(self, rank_ids=None):
        if rank_ids is None or sorted(rank_ids) != sorted(self.rank_ids):
            raise ModelError("swizzleRanks(%r) on tensor with ranks %r" % (rank_ids, self.rank_ids))
        perm = [self.rank_ids.index(r) for r in rank_ids]
        if len(set(perm)) != len(perm):
            raise ModelError("swizzleRanks with duplicate ranks %r" % (rank_ids,))
        pts = [(tuple(cs[i] for i in perm), v) for cs, v in self.points()]
        shape = [self.shape[i] for i in perm] if self.shape else None
        return Tensor.fromPoints(rank_ids, pts, self.name, shape=shape)

    def _split(self, depth, groups_fn):
        """groups_fn(fiber) -> list of (upper_coord, [indices])"""
        if not (0 <= depth < len(self.rank_ids)):
            raise ModelError("split depth %r on tensor with ranks %r" % (depth, self.rank_ids))

        def cp(p):
            return p.copy() if isinstance(p, Fiber) else Box(p.v)

        def rec(f, d):
            if d == 0:
                nf = Fiber([], [], f.below + 1)
                for uc, idxs in groups_fn(f):
                    sub = Fiber([f.coords[i] for i in idxs], [cp(f.payloads[i]) for i in idxs], f.below)
                    nf.coords.append(uc)
                    nf.payloads.append(sub)
                return nf
            return Fiber(list(f.coords), [rec(p, d - 1) for p in f.payloads], f.below + 1)

        ids = self.rank_ids[:depth] + [self.rank_ids[depth] + ".1", self.rank_ids[depth] + ".0"] + self.rank_ids[depth + 1:]
        return Tensor(rank_ids=ids, name=self.name, root=rec(self.root, depth))

    def splitUniform(self, step, depth=0, pre_halo=0, post_halo=0, **kw):
        _kw(kw, "splitUniform")
        if not isinstance(step, int) or step <= 0:
            raise ModelError("splitUniform step %r" % (step,))
        for h in (pre_halo, post_halo):
            if not isinstance(h, int) or h < 0:
                raise ModelError("splitUniform halo %r" % (h,))
        policy = State.halo_policy

        def g(f):
            groups = {}
            for c in f.coords:
                if isinstance(c, tuple):
                    raise ModelError("splitUniform on tuple coordinates")
                if policy == "M":
                    groups.setdefault(int(c // step) * step, [])
                else:
                    lo = c - post_halo
                    hi = c + pre_halo
                    s0 = max(0, -(-(lo - step + 1) // step) * step)
                    while s0 <= hi:
                        if s0 - pre_halo <= c < s0 + step + post_halo:
                            groups.setdefault(s0, [])
                        s0 += step
            for s0 in groups:
                for i, c in enumerate(f.coords):
                    if s0 - pre_halo <= c < s0 + step + post_halo:
                        groups[s0].append(i)
            return sorted(groups.items())
        return self._split(depth, g)

    def splitEqual(self, size, depth=0, pre_halo=0, post_halo=0, **kw):
        _kw(kw, "splitEqual")
        if not isinstance(size, int) or size <= 0:
            raise ModelError("splitEqual size %r" % (size,))

        def g(f):
            bounds = [f.coords[i] for i in range(0, len(f.coords), size)]
            return bounded(f, bounds, pre_halo, post_halo)
        return self._split(depth, g)

    def splitNonUniform(self, splits, depth=0, pre_halo=0, post_halo=0, **kw):
        _kw(kw, "splitNonUniform")
        if isinstance(splits, FiberLike):
            bounds = [c for c, _ in splits.items()]
        else:
            bounds = list(splits)

        def g(f):
            return bounded(f, bounds, pre_halo, post_halo)
        return self._split(depth, g)

    def flattenRanks(self, depth=0, levels=1, coord_style="tuple"):
        n = len(self.rank_ids)
        if not (0 <= depth and depth + levels < n and levels >= 1):
            raise ModelError("flatten/mergeRanks(depth=%r, levels=%r) on ranks %r" % (depth, levels, self.rank_ids))
        pts = []
        for cs, v in self.points():
            mid = cs[depth:depth + levels + 1]
            if coord_style == "tuple":
                flat = ()
                for m in mid:
                    flat += m if isinstance(m, tuple) else (m,)
                nc = flat
            elif coord_style == "absolute":
                nc = mid[-1]
            else:
                raise ModelError("coord_style %r" % (coord_style,))
            pts.append((cs[:depth] + (nc,) + cs[depth + levels + 1:], v))
        ids = self.rank_ids[:depth] + ["".join(self.rank_ids[depth:depth + levels + 1])] + self.rank_ids[depth + levels + 1:]
        return Tensor.fromPoints(ids, pts, self.name, add=True)

    def mergeRanks(self, depth=0, levels=1, coord_style="absolute"):
        return self.flattenRanks(depth, levels, coord_style)

    def unflattenRanks(self, depth=0, levels=1):
        if not (0 <= depth < len(self.rank_ids)):
            raise ModelError("unflattenRanks depth %r on ranks %r" % (depth, self.rank_ids))
        pts = []
        for cs, v in self.points():
            mid = cs[depth]
            if not (isinstance(mid, tuple) and len(mid) == levels + 1):
                raise ModelError("unflattenRanks(levels=%r) on coordinate %r" % (levels, mid))
            pts.append((cs[:depth] + tuple(mid) + cs[depth + 1:], v))
        ids = self.rank_ids[:depth] + [self.rank_ids[depth] + "." + str(i) for i in range(levels + 1)] + self.rank_ids[depth + 1:]
        return Tensor.fromPoints(ids, pts, self.name)

    def __repr__(self):
        return "T[%s](%s)" % (",".join(self.rank_ids), self.points())


def bounded(f, bounds, pre, post):
    out = []
    inf = float("inf")
    for j, b in enumerate(bounds):
        nxt = bounds[j + 1] if j + 1 < len(bounds) else None
        if pre == 0 and post == 0:
            idxs = [i for i, c in enumerate(f.coords) if b <= c and (nxt is None or c < nxt)]
        else:
            idxs = [i for i, c in enumerate(f.coords) if b - pre <= c and (nxt is None or c < nxt + post)]
        if idxs:
            out.append((b, idxs))
    return out
