"""Hardware alphabet for the metrics-mode universes (C11, C12, C14; part of the C06/C09 corpus).

One architecture skeleton (DRAM at the top, one or two levels of PEs with Buffet, Cache, compute, every intersector type,
Sequencer, Merger), and per Einsum every combination of at most MAXB component bindings from a menu derived from the
Einsum and its mapping.  Numbers (frequency, bandwidths, instance counts) are distinct primes / small distinct values so
that C14 can tell them apart.
"""
import copy
import itertools

from mc.spec import build as B
from mc.spec.build import E, T, times, take


def architecture(instances=("single", 3, 1), freq=1009, bw=521):
    """instances: (top, mid, low): 'single' or N meaning NAME[0..N]"""
    def nm(base, n):
        return base if n == "single" else "%s[0..%d]" % (base, n)
    local = [
        {"name": "Buf", "class": "Buffet", "attributes": {"width": 64, "depth": 128}},
        {"name": "Cch", "class": "Cache", "attributes": {"width": 32, "depth": 123456.5}},
        {"name": "Mul", "class": "compute", "attributes": {"type": "mul"}},
        {"name": "Add", "class": "compute", "attributes": {"type": "add"}},
        {"name": "Is2", "class": "Intersector", "attributes": {"type": "two-finger"}},
        {"name": "IsS", "class": "Intersector", "attributes": {"type": "skip-ahead"}},
        {"name": "IsL", "class": "Intersector", "attributes": {"type": "leader-follower"}},
        {"name": "Seq", "class": "Sequencer", "attributes": {"num_ranks": 2}},
        {"name": "Mrg", "class": "Merger", "attributes": {"inputs": 4, "comparator_radix": 4, "outputs": 1, "order": "fifo", "reduce": False}},
    ]
    return {"acc": [{"name": nm("System", instances[0]), "attributes": {"clock_frequency": freq},
                     "local": [{"name": "Mem", "class": "DRAM", "attributes": {"bandwidth": bw}}],
                     "subtree": [{"name": nm("Chip", instances[1]),
                                  "local": [{"name": "Buf2", "class": "Buffet", "attributes": {"width": 16, "depth": 32, "bandwidth": 523}}],
                                  "subtree": [{"name": nm("PE", instances[2]), "local": local}]}]}]}


def fmt_for(ranks, bits="cp"):
    d = {"rank-order": list(ranks)}
    for i, r in enumerate(ranks):
        e = {"format": "C" if i else "U"}
        if "c" in bits:
            e["cbits"] = 32
        if "p" in bits:
            e["pbits"] = 64 if i == len(ranks) - 1 else 32
        if bits == "i" and i == len(ranks) - 1:
            e.update({"cbits": 32, "pbits": 32, "layout": "interleaved"})
        d[r] = e
    return {"default": d}


def loop_layout(spec, name):
    """rank ids of tensor `name` inside the loop nest, asked of the compiler's own IR (used only to *write* a consistent
    format section / merger binding -- it is part of the input, not of any oracle)"""
    from teaal.ir.program import Program
    from teaal.parse import Einsum, Mapping
    y = B.to_yaml(spec)
    out = {}
    p = Program(Einsum(copy.deepcopy(y)), Mapping(copy.deepcopy(y)))
    for i, e in enumerate(spec["exprs"]):
        p.add_einsum(i)
        for t in p.get_equation().get_tensors():
            tt = copy.deepcopy(t)
            p.apply_all_partitioning(tt)
            p.get_loop_order().apply(tt)
            out[(e["out"][0], t.root_name())] = (list(t.get_ranks()), list(tt.get_ranks()))
        p.reset()
    return out


def format_name(layouts, out, tensor):
    """name of the format describing `tensor` as laid out inside Einsum `out`: 'default' for the layout of the first Einsum
    that touches the tensor, 'L<ranks>' for any other layout"""
    first = next(v[1] for (o, t), v in layouts.items() if t == tensor)
    lay = layouts[(out, tensor)][1]
    return "default" if lay == first else "L" + "".join(lay)


def mem_bindings(tensor, rank, types, evict=None, style=None, fmt="default"):
    bs = []
    for ty in types:
        b = {"tensor": tensor, "rank": rank, "type": ty, "format": fmt}
        if evict is not None:
            b["evict-on"] = evict
        if style:
            b["style"] = style
        bs.append(b)
    return bs


def binding_menu(out, expr, layouts, loop_ranks, quick):
    """list of (label, [component binding dicts]) for one Einsum"""
    menu = []
    tensors = [out] + [t for t in dict.fromkeys(B.read_tensors(expr))]
    menu.append(("mul", [{"component": "Mul", "bindings": [{"op": "mul"}]}]))
    menu.append(("add", [{"component": "Add", "bindings": [{"op": "add"}]}]))
    # memory traffic: DRAM -> Buffet (lazy / eager, each evict-on), DRAM -> Cache
    for t in tensors:
        lay = layouts[(out, t)][1]
        if not lay:
            continue
        fn = format_name(layouts, out, t)
        cand = [(lay[-1], ["coord", "payload"])] + ([(lay[0], ["payload"])] if len(lay) > 1 and not quick else [])
        for rank, types in cand:
            # evict-on names a loop that encloses the loaded rank (or root)
            # (a rank that is looked up by coordinate inside the innermost loop is loaded there: that loop cannot be the
            # evict-on loop either)
            pos = loop_ranks.index(rank) if rank in loop_ranks else len(loop_ranks) - 1
            evicts = ["root"] + [r for r in loop_ranks[:pos]]
            for ev in evicts[: (3 if quick else None)]:
                for style in ("lazy", "eager"):
                    if style == "eager" and ev == "root":
                        # crashes the compiler (NetworkXError in Collector.trace_tree): not an accepted combination
                        continue
                    # an eager binding names the coordinate of its root rank only; the compiler expands it
                    btypes = types if style == "lazy" else types[:1]
                    menu.append(("buf:%s.%s@%s/%s" % (t, rank, ev, style), [
                        {"component": "Mem", "bindings": mem_bindings(t, rank, types, fmt=fn)},
                        {"component": "Buf", "bindings": mem_bindings(t, rank, btypes, evict=ev, style=style, fmt=fn)}]))
            menu.append(("cache:%s.%s" % (t, rank), [
                {"component": "Mem", "bindings": mem_bindings(t, rank, types, fmt=fn)},
                {"component": "Cch", "bindings": mem_bindings(t, rank, types, fmt=fn)}]))
    # intersectors on every rank co-iterated by >= 2 inputs of one term
    for kind, fs, _ in expr["terms"]:
        ins = [f[1] for f in fs if f[0] == "t"]
        for r in loop_ranks:
            holders = [t for t in ins if r in layouts[(out, t)][1]]
            affine = any(len(a) > 1 for f in fs if f[0] == "t" for a in f[2])
            if affine and len(ins) >= 2:
                holders = list(ins)
            if len(holders) < 2:
                continue
            menu.append(("is2:%s" % r, [{"component": "Is2", "bindings": [{"rank": r}]}]))
            menu.append(("isS:%s" % r, [{"component": "IsS", "bindings": [{"rank": r}]}]))
            for L in holders:
                menu.append(("isL:%s<%s" % (r, L), [{"component": "IsL", "bindings": [{"rank": r, "leader": L}]}]))
    # one intersector component bound to two ranks at once
    corank = []
    for kind, fs, _ in expr["terms"]:
        ins = [f[1] for f in fs if f[0] == "t"]
        for r in loop_ranks:
            if len([t for t in ins if r in layouts[(out, t)][1]]) >= 2 and r not in corank:
                corank.append(r)
    for r1, r2 in itertools.combinations(corank, 2):
        for comp, lab in (("Is2", "is2"), ("IsS", "isS")):
            menu.append(("%s:%s+%s" % (lab, r1, r2), [{"component": comp, "bindings": [{"rank": r1}, {"rank": r2}]}]))
            menu.append(("%s:%s+%s" % (lab, r2, r1), [{"component": comp, "bindings": [{"rank": r2}, {"rank": r1}]}]))
    # the same tensor rank buffered at two levels with different styles
    for t in tensors:
        lay = layouts[(out, t)][1]
        if not lay:
            continue
        fn = format_name(layouts, out, t)
        rank = lay[-1]
        pos = loop_ranks.index(rank) if rank in loop_ranks else len(loop_ranks) - 1
        evs = loop_ranks[:pos][:1] or ["root"]
        for s1, s2 in (("lazy", "eager"), ("eager", "lazy")):
            t1 = ["coord", "payload"] if s1 == "lazy" else ["coord"]
            t2 = ["coord", "payload"] if s2 == "lazy" else ["coord"]
            menu.append(("buf2x:%s.%s/%s-%s" % (t, rank, s1, s2), [
                {"component": "Mem", "bindings": mem_bindings(t, rank, ["coord", "payload"], fmt=fn)},
                {"component": "Buf2", "bindings": mem_bindings(t, rank, t1, evict=evs[0], style=s1, fmt=fn)},
                {"component": "Buf", "bindings": mem_bindings(t, rank, t2, evict=evs[0], style=s2, fmt=fn)}]))
    # one tensor kept eagerly at two levels from two different roots (outer buffer: the subtree below an outer rank,
    # inner buffer: the subtree below the next rank)
    for t in tensors:
        lay = layouts[(out, t)][1]
        if len(lay) < 2 or lay[-2] not in loop_ranks or lay[-1] not in loop_ranks:
            continue
        fn = format_name(layouts, out, t)
        r1, r2 = lay[-2], lay[-1]
        p1 = loop_ranks.index(r1)
        if p1 == 0 or loop_ranks.index(r2) < p1:
            continue
        menu.append(("buf2e:%s.%s+%s" % (t, r1, r2), [
            {"component": "Mem", "bindings": mem_bindings(t, r1, ["coord", "payload"], fmt=fn)},
            {"component": "Buf2", "bindings": mem_bindings(t, r1, ["coord"], evict=loop_ranks[p1 - 1], style="eager", fmt=fn)},
            {"component": "Buf", "bindings": mem_bindings(t, r2, ["coord"], evict=r1, style="eager", fmt=fn)}]))
    # sequencer over 1-2 loop ranks
    for n in (1, 2):
        for rs in itertools.combinations(loop_ranks, n):
            if quick and n == 2 and rs != tuple(loop_ranks[:2]):
                continue
            menu.append(("seq:" + "+".join(rs), [{"component": "Seq", "bindings": [{"rank": r} for r in rs]}]))
    # merger on every input whose stored order differs from its loop order by one swap
    for t in tensors[1:]:
        init, final = layouts[(out, t)]
        if init != final and sorted(init) == sorted(final):
            menu.append(("mrg:%s" % t, [{"component": "Mrg", "bindings": [{"tensor": t, "init-ranks": list(init), "final-ranks": list(final)}]}]))
    # merger whose init-ranks are a user-chosen order of the tensor's in-loop ranks (possibly ranks that only exist
    # after partitioning): the compiler inserts an extra "metrics" swizzle before the loop-order swizzle
    for t in tensors[1:]:
        final = layouts[(out, t)][1]
        if len(final) >= 2:
            init = [final[1], final[0]] + list(final[2:])
            menu.append(("mrgx:%s" % t, [{"component": "Mrg", "bindings": [{"tensor": t, "init-ranks": init, "final-ranks": list(final)}]}]))
    return menu


def merge_bindings(groups):
    """combine component bindings of several menu entries (same component -> bindings concatenated, duplicates dropped)"""
    by = {}
    for g in groups:
        for cb in g:
            lst = by.setdefault(cb["component"], [])
            for b in cb["bindings"]:
                if b not in lst:
                    lst.append(copy.deepcopy(b))
    return [{"component": c, "bindings": bs} for c, bs in by.items()]


def base_specs(quick):
    """(tag, spec without hardware, extents list)"""
    decl = {"A": ["K", "M"], "B": ["K", "N"], "Z": ["M", "N"]}
    mm = E("Z", ["m", "n"], times(T("A", "k", "m"), T("B", "k", "n")))
    out = []
    e1 = [{"K": 2, "M": 2, "N": 1}]
    out.append(("mm/MKN", {"decl": decl, "exprs": [mm], "mapping": {"loop-order": {"Z": ["M", "K", "N"]}}}, e1))
    out.append(("mm/KMN", {"decl": decl, "exprs": [mm], "mapping": {"loop-order": {"Z": ["K", "M", "N"]}}}, e1))
    out.append(("mm/KMN-slip", {"decl": decl, "exprs": [mm], "mapping": {"loop-order": {"Z": ["K", "M", "N"]}}, "_slip": True}, e1))
    out.append(("mm/shape", {"decl": decl, "exprs": [mm], "mapping": {
        "partitioning": {"Z": {"K": ["uniform_shape(2)"]}}, "loop-order": {"Z": ["K1", "M", "N", "K0"]}}}, [{"K": 3, "M": 2, "N": 1}]))
    out.append(("mm/occ", {"decl": decl, "exprs": [mm], "mapping": {
        "partitioning": {"Z": {"K": ["uniform_occupancy(A.2)"]}}, "loop-order": {"Z": ["M", "K1", "N", "K0"]}}}, [{"K": 3, "M": 2, "N": 1}]))
    dj = {"A": ["J", "K"], "B": ["K"], "C": ["J"], "Z": []}
    out.append(("jk3", {"decl": dj, "exprs": [E("Z", [], times(T("A", "j", "k"), T("B", "k"), T("C", "j")))],
                        "mapping": {"loop-order": {"Z": ["J", "K"]}}}, [{"J": 2, "K": 2}]))
    if not quick:
        out.append(("mm/MNK", {"decl": decl, "exprs": [mm], "mapping": {"loop-order": {"Z": ["M", "N", "K"]}}}, e1))
    if True:
        out.append(("mm/flat", {"decl": decl, "exprs": [mm], "mapping": {
            "partitioning": {"Z": {"K": ["uniform_shape(2)"], "(M, K0)": ["flatten()"], "MK0": ["uniform_occupancy(A.2)"]}},
            "loop-order": {"Z": ["K1", "MK01", "N", "MK00"]}}}, [{"K": 3, "M": 2, "N": 1}]))
    out.append(("mm/NKM", {"decl": decl, "exprs": [mm], "mapping": {"loop-order": {"Z": ["N", "K", "M"]}}}, [{"K": 2, "M": 2, "N": 1}, {"K": 1, "M": 1, "N": 3}]))
    # output-only rank (broadcast) and index math: ranks that are not simply co-iterated
    db = {"A": ["K", "M"], "B": ["K"], "Z": ["M", "N"]}
    out.append(("bcast", {"decl": db, "exprs": [E("Z", ["m", "n"], times(T("A", "k", "m"), T("B", "k")))],
                          "mapping": {"loop-order": {"Z": ["M", "K", "N"]}}}, [{"K": 2, "M": 2, "N": 2}]))
    dc = {"I": ["W"], "F": ["S"], "O": ["Q"]}
    out.append(("conv/QS", {"decl": dc, "exprs": [E("O", ["q"], times(T("I", {"q": 1, "s": 1}), T("F", "s")))],
                            "mapping": {"loop-order": {"O": ["Q", "S"]}}}, [{"Q": 3, "S": 2, "W": 4}]))
    out.append(("conv/WQ", {"decl": dc, "exprs": [E("O", ["q"], times(T("I", {"q": 1, "s": 1}), T("F", "s")))],
                            "mapping": {"loop-order": {"O": ["W", "Q"]}}}, [{"Q": 3, "S": 2, "W": 4}]))
    d2 = {"A": ["K", "M"], "B": ["K", "M"], "C": ["K"], "Z": ["M"]}
    out.append(("mm3", {"decl": d2, "exprs": [E("Z", ["m"], times(T("A", "k", "m"), T("B", "k", "m"), T("C", "k")))],
                        "mapping": {"loop-order": {"Z": ["M", "K"]}}}, [{"K": 2, "M": 2}]))
    out.append(("mm3/KM", {"decl": d2, "exprs": [E("Z", ["m"], times(T("A", "k", "m"), T("B", "k", "m"), T("C", "k")))],
                           "mapping": {"loop-order": {"Z": ["K", "M"]}}}, [{"K": 2, "M": 2}]))
    out.append(("mm/shapeM", {"decl": decl, "exprs": [mm], "mapping": {
        "partitioning": {"Z": {"M": ["uniform_shape(2)"]}}, "loop-order": {"Z": ["M1", "K", "N", "M0"]}}}, [{"K": 2, "M": 3, "N": 1}]))
    # a leader-follower rank above ranks where leader and follower are still co-iterated
    djkl = {"A": ["J", "K", "L"], "B": ["J", "K"], "Z": ["J", "K", "L"]}
    out.append(("jkl", {"decl": djkl, "exprs": [E("Z", ["j", "k", "l"], times(T("A", "j", "k", "l"), T("B", "j", "k")))],
                        "mapping": {"loop-order": {"Z": ["J", "K", "L"]}}}, [{"J": 2, "K": 2, "L": 1}]))
    # three factors over different rank sets (the order of follower payloads matters), K outermost
    dx = {"A": ["K", "M"], "B": ["K", "N"], "C": ["K"], "Z": ["M", "N"]}
    out.append(("mm3x", {"decl": dx, "exprs": [E("Z", ["m", "n"], times(T("A", "k", "m"), T("B", "k", "n"), T("C", "k")))],
                         "mapping": {"loop-order": {"Z": ["K", "M", "N"]}}}, [{"K": 2, "M": 2, "N": 1}]))
    # the same component can be bound in two Einsums of a cascade, with different parameters
    dcas = {"A": ["K", "M"], "B": ["K", "N"], "T": ["M", "N"], "Z": ["N", "M"]}
    out.append(("cas2", {"decl": dcas, "exprs": [E("T", ["m", "n"], times(T("A", "k", "m"), T("B", "k", "n"))),
                                                 E("Z", ["n", "m"], times(T("A", "k", "m"), T("B", "k", "n")))],
                         "mapping": {"loop-order": {"T": ["K", "M", "N"], "Z": ["K", "N", "M"]}}}, [{"K": 2, "M": 2, "N": 1}]))
    # a dynamic partition inside outer loops that is hoisted out of the next inner loop
    dj3 = {"A": ["K", "M"], "B": ["K", "J"], "C": ["J"], "Z": ["M"]}
    out.append(("mm3j", {"decl": dj3, "exprs": [E("Z", ["m"], times(T("A", "k", "m"), T("B", "k", "j"), T("C", "j")))],
                         "mapping": {"partitioning": {"Z": {"J": ["uniform_occupancy(B.2)"]}}, "loop-order": {"Z": ["K", "M", "J1", "J0"]}}},
                [{"K": 2, "M": 1, "J": 3}]))
    d3 = {"A": ["M"], "B": ["M"], "Z": ["M"]}
    out.append(("sum", {"decl": d3, "exprs": [E("Z", ["m"], times(T("A", "m")), times(T("B", "m")))], "mapping": {"loop-order": {"Z": ["M"]}}}, [{"M": 3}]))
    # gamma-like cascade: take, then a reduction with a swizzled intermediate (merger)
    d4 = {"A": ["K", "M"], "B": ["K", "N"], "T": ["K", "M", "N"], "Z": ["M", "N"]}
    casc = [E("T", ["k", "m", "n"], take(T("A", "k", "m"), T("B", "k", "n"), sel=1)),
            E("Z", ["m", "n"], times(T("T", "k", "m", "n"), T("A", "k", "m")))]
    out.append(("gamma", {"decl": d4, "exprs": casc, "mapping": {
        "rank-order": {"A": ["M", "K"], "T": ["M", "K", "N"]},
        "loop-order": {"T": ["M", "K", "N"], "Z": ["M", "N", "K"]}}}, [{"K": 2, "M": 2, "N": 1}]))
    return out


def with_hw(spec, per_einsum_bindings, layouts, bits="cp", instances=("single", 3, 1), freq=1009, bw=521):
    s = copy.deepcopy(spec)
    s.pop("_slip", None)
    s["architecture"] = architecture(instances, freq, bw)
    s["bindings"] = {}
    fm = {}
    st = {}
    for e in spec["exprs"]:
        o = e["out"][0]
        s["bindings"][o] = [{"config": "acc", "prefix": "tmp/" + o}] + copy.deepcopy(per_einsum_bindings.get(o, []))
        lo = ((spec.get("mapping") or {}).get("loop-order") or {}).get(o)
        if lo:
            st[o] = {"space": [lo[-1]], "time": list(lo[:-1])}
            if spec.get("_slip"):
                st[o]["opt"] = "slip"
    for (o, t), (init, final) in layouts.items():
        # one format per distinct in-loop layout of a tensor ('default' = layout in the first Einsum that touches it)
        if final:
            fm.setdefault(t, {})[format_name(layouts, o, t)] = fmt_for(final, bits)["default"]
    s["format"] = fm
    s["mapping"] = dict(s.get("mapping") or {})
    if st and len(st) == len(spec["exprs"]):
        s["mapping"]["spacetime"] = st
    return s


def config(base, labels_by_einsum, bits="cp"):
    """One configuration built directly from the binding menus (independent of the slices configs() draws):
    labels_by_einsum = {output name: [menu labels]}.  Unknown base or label is an error."""
    for tag, spec, exts in base_specs(False):
        if tag != base:
            continue
        layouts = loop_layout(spec, None)
        per = {}
        for e in spec["exprs"]:
            o = e["out"][0]
            if o not in labels_by_einsum:
                continue
            lo = ((spec.get("mapping") or {}).get("loop-order") or {}).get(o) or [v.upper() for v in __import__("mc.model.dense", fromlist=["x"]).expr_vars(e)]
            menu = dict(binding_menu(o, e, layouts, lo, False))
            per[o] = merge_bindings([menu[l] for l in labels_by_einsum[o]])
        return with_hw(spec, per, layouts, bits), exts
    raise KeyError(base)


def configs(quick, maxb=None):
    """(tag, spec with hardware, extents, labels)"""
    maxb = maxb or (2 if quick else 3)
    out = []
    for tag, spec, exts in base_specs(quick):
        layouts = loop_layout(spec, None)
        menus = {}
        for e in spec["exprs"]:
            o = e["out"][0]
            lo = ((spec.get("mapping") or {}).get("loop-order") or {}).get(o) or [v.upper() for v in __import__("mc.model.dense", fromlist=["x"]).expr_vars(e)]
            menus[o] = binding_menu(o, e, layouts, lo, quick)
        names = [e["out"][0] for e in spec["exprs"]]
        if len(names) == 1:
            o = names[0]
            menu = menus[o]
            combos = [()]
            for n in range(1, maxb + 1):
                combos += list(itertools.combinations(range(len(menu)), n))
            # quick: all singletons + a deterministic slice of the pairs; thorough: all singletons, ALL pairs and a
            # deterministic slice of the triples (the full product of triples is ~5*10^5 configurations)
            keep = [c for c in combos if len(c) <= 1]
            pairs = [c for c in combos if len(c) == 2]
            triples = [c for c in combos if len(c) == 3]
            if quick:
                keep += pairs[:: max(1, len(pairs) // 180)] if len(combos) > 400 else pairs
            else:
                keep += pairs + triples[:: max(1, len(triples) // 1200)]
            combos = keep
            for c in combos:
                labels = [menu[i][0] for i in c]
                # two buffer bindings of the same tensor rank are (by the compiler's own rule) multiple bindings
                dynamic = "uniform_occupancy" in B.canon((spec.get("mapping") or {}).get("partitioning") or {})
                if dynamic and any(l.startswith("mrgx") for l in labels) and not (tag == "mm/occ" and labels == ["mrgx:A"]):
                    # a merger whose init-ranks mix ranks across a dynamic partitioning is accepted but emits a dump that reads
                    # a tensor variable that never exists (known finding F16): one specific instance is kept
                    continue
                memkeys = [l.split(":")[1].split("@")[0].split("/")[0] for l in labels if l.startswith(("buf:", "cache:", "buf2x:", "buf2e:"))]
                if len(memkeys) != len(set(memkeys)):
                    continue
                if any(l.startswith("buf2e:") for l in labels) and len({k.split(".")[0] for k in memkeys}) != len(memkeys):
                    continue
                if len({l.split(":")[0] for l in labels if l.startswith("is")}) > 1 and quick:
                    continue
                bs = merge_bindings([menu[i][1] for i in c])
                for bits in (("cp",) if quick else ("cp", "p", "i")):
                    if bits != "cp" and not any(l.startswith(("buf", "cache")) for l in labels):
                        continue
                    out.append(("%s|%s|%s" % (tag, "+".join(labels) or "none", bits), with_hw(spec, {o: bs}, layouts, bits), exts, labels))
        else:
            # cascade: one menu entry (or none) per Einsum, all pairs
            opts = {o: [None] + list(range(len(menus[o]))) for o in names}
            for o in names:
                if quick and len(opts[o]) > 12:
                    opts[o] = opts[o][:: max(1, len(opts[o]) // 12)]
            combos = list(itertools.product(*[opts[o] for o in names]))
            # the same component bound in several Einsums with different parameters: every combination of intersector /
            # sequencer entries across the Einsums
            shared = {o: [i for i, m in enumerate(menus[o]) if m[0].startswith(("is", "seq"))] for o in names}
            for combo in itertools.product(*[shared[o] for o in names]):
                if combo not in combos:
                    combos.append(combo)
            for combo in combos:
                per = {}
                labels = []
                for o, i in zip(names, combo):
                    if i is not None:
                        per[o] = merge_bindings([menus[o][i][1]])
                        labels.append("%s:%s" % (o, menus[o][i][0]))
                out.append(("%s|%s|cp" % (tag, "+".join(labels) or "none"), with_hw(spec, per, layouts), exts, labels))
            if tag == "gamma":
                # F15 (known finding): a buffer binding that names a format whose rank order is not the tensor's layout inside
                # this Einsum is accepted, no trace is registered, yet the dump consumes it
                i = next(i for i, m in enumerate(menus["Z"]) if m[0].startswith("buf:T.K@M/lazy"))
                bs = copy.deepcopy(merge_bindings([menus["Z"][i][1]]))
                for cb in bs:
                    for b in cb["bindings"]:
                        b["format"] = "default"
                out.append(("gamma-fmt-mismatch|Z:buf:T.K@M/lazy|cp", with_hw(spec, {"Z": bs}, layouts), exts, ["Z:buf:T.K@M/lazy(format=default)"]))
    return out
