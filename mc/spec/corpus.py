"""The compile-only corpus shared by C06, C09 (and the default tie-break part of C10): the union of the universes of the
executing checks plus the repository's own example specifications, in every applicable compilation mode."""
import copy
import glob
import os

from mc.core.paths import REPO
from mc.spec import build as B


class _Q:
    tier, quick, seed, jobs = "quick", True, 0, 1

    @staticmethod
    def pick(a, b):
        return a


class _T:
    tier, quick, seed, jobs = "thorough", False, 0, 1

    @staticmethod
    def pick(a, b):
        return b


def yaml_files():
    from ruamel.yaml import YAML
    out = []
    for f in sorted(glob.glob(os.path.join(REPO, "tests", "integration", "*.yaml"))):
        with open(f) as fh:
            y = YAML(typ="safe", pure=True).load(fh)
        if not isinstance(y, dict) or "einsum" not in y:
            continue
        out.append((os.path.basename(f), y))
    return out


def entries(ctx):
    """list of {"tag", "yaml", "mode"}; mode in plain | metrics"""
    from mc.props import c01, c02, c03, c04, c05
    tier = _Q if ctx.quick else _T
    es = []
    seen = set()

    def add(tag, y, mode):
        k = B.canon(y) + mode
        if k in seen:
            return
        seen.add(k)
        es.append({"tag": tag, "yaml": y, "mode": mode})

    for mod, name, stride in ((c01, "C01", 1), (c02, "C02", 1 if not ctx.quick else 2), (c03, "C03", 1), (c04, "C04", 1)):
        for w in mod.configs(tier)[::stride]:
            y = B.to_yaml(w["spec"])
            n0 = len(es)
            add(name + ":" + w["tag"], y, "plain")
            if name in ("C01", "C02") and len(es) > n0:
                es[-1]["must_compile"] = True
    events = c05.QUICK_EVENTS if ctx.quick else list(c05.EVENTS)
    for h in c05.histories(events, 2):
        add("C05:" + "+".join(e for e, _ in h), B.to_yaml(c05.build_spec(h)), "plain")
    # compile-only family outside the executing checks: the *input* rank is partitioned and the other index-math rank
    # follows it (fractional steps and halos exercise the coordinate-expression printer)
    for a, b in ((1, 1), (2, 1), (3, 1), (1, 2), (2, 3), (3, 2)):
        for st in (["uniform_shape(4)"], ["uniform_shape(6)", "uniform_shape(2)"], ["nway_shape(2)"]):
            n = len(st)
            for lo in (None, ["W%d" % i for i in range(n, 0, -1)] + ["S", "W0"], ["S"] + ["W%d" % i for i in range(n, -1, -1)]):
                m = {"partitioning": {"Z": {"W": list(st), "Q": ["follow(W)"]}}}
                if lo:
                    m["loop-order"] = {"Z": lo}
                def term(c, v):
                    return v if c == 1 else "%d * %s" % (c, v)
                y = {"einsum": {"declaration": {"I": ["W"], "F": ["Q"], "Z": ["S"]},
                                "expressions": ["Z[s] = I[%s + %s] * F[q]" % (term(a, "q"), term(b, "s"))]}, "mapping": m}
                add("REV(%d,%d)/%s" % (a, b, "+".join(st)), y, "plain")
    # batched, partitioned convolution with an extra directly indexed input (several tensors feed one eager-input node)
    for expr in ("O[b, q] = I[b, q + s] * F[s] * G[q]", "O[b, q] = G[q] * I[b, q + s] * F[s]", "O[b, q] = I[b, q + s] * F[s]"):
        for lo in (["B", "Q1", "W0", "Q0"], ["Q1", "B", "W0", "Q0"], ["B", "Q1", "S", "Q0"], ["Q1", "W0", "B", "Q0"]):
            y = {"einsum": {"declaration": {"I": ["B", "W"], "F": ["S"], "G": ["Q"], "O": ["B", "Q"]}, "expressions": [expr]},
                 "mapping": {"partitioning": {"O": {"Q": ["uniform_shape(2)"], "W": ["follow(Q)"]}}, "loop-order": {"O": lo}}}
            add("CONVB/" + "".join(lo), y, "plain")
            es[-1]["must_compile"] = True
    # flattening of three ranks whose middle (or first / last) rank is created by a dynamic split inside an outer loop
    for tup in (("M", "K0", "N"), ("K0", "M", "N"), ("M", "N", "K0")):
        for lo in (["J", "K1", "".join(tup)], ["K1", "J", "".join(tup)]):
            y = {"einsum": {"declaration": {"A": ["J", "K", "M", "N"], "B": ["K", "N"], "Z": ["J"]}, "expressions": ["Z[j] = A[j, k, m, n] * B[k, n]"]},
                 "mapping": {"partitioning": {"Z": {"K": ["uniform_occupancy(A.2)"], "(%s)" % ", ".join(tup): ["flatten()"]}}, "loop-order": {"Z": lo}}}
            add("FLAT3/" + "".join(tup) + "/" + "".join(lo), y, "plain")
            es[-1]["must_compile"] = True
    for fname, y in yaml_files():
        if "architecture" in y and "bindings" in y:
            add("file:" + fname, y, "metrics")
        plain = {k: copy.deepcopy(v) for k, v in y.items() if k in ("einsum", "mapping")}
        add("file:" + fname, plain, "plain")
        if plain.get("mapping") and plain["mapping"].get("spacetime"):
            nost = copy.deepcopy(plain)
            del nost["mapping"]["spacetime"]
            add("file:" + fname + "-nospacetime", nost, "plain")
    try:
        from mc.props import c16
        for w in c16.configs(tier)[:: (4 if ctx.quick else 1)]:
            add("C16:" + w["tag"], B.to_yaml(w["spec"]), "plain")
    except ImportError:
        pass
    try:
        from mc.props import c11
        for i, w in enumerate(c11.configs(tier)):
            # (the single inputs of the known findings F15/F16 are always part of the corpus, whatever the slice)
            if not ctx.quick or i % 2 == 0 or w["tag"].startswith(("mm/occ|mrgx:A|", "gamma-fmt-mismatch")):
                add("C11:" + w["tag"], B.to_yaml(w["spec"]), "metrics")
    except ImportError:
        pass
    return es


def compile_entry(e):
    """returns (HiFiber object, text) -- raises whatever the compiler raises"""
    from teaal.parse import Einsum, Mapping, Architecture, Bindings, Format
    from teaal.trans.hifiber import HiFiber
    y = e["yaml"]
    if e["mode"] == "metrics":
        h = HiFiber(Einsum(copy.deepcopy(y)), Mapping(copy.deepcopy(y)), Architecture(copy.deepcopy(y)),
                    Bindings(copy.deepcopy(y)), Format(copy.deepcopy(y)))
    else:
        h = HiFiber(Einsum(copy.deepcopy(y)), Mapping(copy.deepcopy(y)))
    return h, str(h)
