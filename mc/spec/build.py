"""Structured specifications and their rendering to the YAML dictionaries the compiler consumes.

The compiler only ever sees the rendered text/dicts; the oracles only ever see the structure.

expr   = {"out": (name, [index var, ...]), "terms": [(kind, factors, sel), ...]}
factor = ("t", tensor, [affine, ...]) | ("v", scalar)         affine = {index var: coef}
spec   = {"decl": {tensor: [rank, ...]}, "exprs": [expr, ...], "mapping": {...}, "scalars": [name, ...]}
"""
import copy
import itertools
import json


def T(name, *idx):
    """tensor access; each index is a variable name 'm' or an affine dict {'q': 1, 's': 2}"""
    return ("t", name, [({i: 1} if isinstance(i, str) else dict(i)) for i in idx])


def V(name):
    return ("v", name)


def times(*factors):
    return ("times", list(factors), None)


def take(*factors, sel=0):
    return ("take", list(factors), sel)


def E(out_name, out_idx, *terms):
    return {"out": (out_name, list(out_idx)), "terms": list(terms)}


def render_affine(a):
    parts = []
    for v, c in a.items():
        parts.append(v if c == 1 else "%d * %s" % (c, v))
    return " + ".join(parts)


def render_factor(f):
    if f[0] == "v":
        return f[1]
    return "%s[%s]" % (f[1], ", ".join(render_affine(a) for a in f[2]))


def render_term(t):
    kind, factors, sel = t
    if kind == "times":
        return " * ".join(render_factor(f) for f in factors)
    return "take(%s, %d)" % (", ".join(render_factor(f) for f in factors), sel)


def render_expr(e):
    name, idx = e["out"]
    return "%s[%s] = %s" % (name, ", ".join(idx), " + ".join(render_term(t) for t in e["terms"]))


def to_yaml(spec, sections=("einsum", "mapping")):
    y = {"einsum": {"declaration": copy.deepcopy(spec["decl"]),
                    "expressions": [render_expr(e) for e in spec["exprs"]]}}
    if spec.get("mapping") is not None:
        y["mapping"] = copy.deepcopy(spec["mapping"])
    for k in ("architecture", "bindings", "format"):
        if k in spec:
            y[k] = copy.deepcopy(spec[k])
    return y


def spec_key(spec, **extra):
    d = {"decl": spec["decl"], "exprs": [render_expr(e) for e in spec["exprs"]], "mapping": spec.get("mapping")}
    for k in ("architecture", "bindings", "format"):
        if k in spec:
            d[k] = spec[k]
    d.update(extra)
    return json.dumps(d, sort_keys=True, default=str, separators=(",", ":"))


def out_names(spec):
    return [e["out"][0] for e in spec["exprs"]]


def read_tensors(expr):
    return [f[1] for _, fs, _ in expr["terms"] for f in fs if f[0] == "t"]


def input_tensors(spec):
    """tensors read before any Einsum of the program writes them (user supplied), in first-use order"""
    written, ins = set(), []
    for e in spec["exprs"]:
        for t in read_tensors(e):
            if t not in written and t not in ins:
                ins.append(t)
        written.add(e["out"][0])
    return ins


def scalar_names(spec):
    out = []
    for e in spec["exprs"]:
        for _, fs, _ in e["terms"]:
            for f in fs:
                if f[0] == "v" and f[1] not in out:
                    out.append(f[1])
    return out


def rank_order(spec, tensor):
    ro = (spec.get("mapping") or {}).get("rank-order") or {}
    return list(ro.get(tensor, spec["decl"][tensor]))


def tensor_var(spec, tensor):
    return tensor + "_" + "".join(rank_order(spec, tensor))


def compile_spec(spec, mode="plain"):
    """Returns the HiFiber object (real compiler, fresh parsed objects)."""
    from teaal.parse import Einsum, Mapping, Architecture, Bindings, Format
    from teaal.trans.hifiber import HiFiber
    y = to_yaml(spec)
    if mode == "metrics":
        return HiFiber(Einsum(copy.deepcopy(y)), Mapping(copy.deepcopy(y)), Architecture(copy.deepcopy(y)),
                       Bindings(copy.deepcopy(y)), Format(copy.deepcopy(y)))
    return HiFiber(Einsum(copy.deepcopy(y)), Mapping(copy.deepcopy(y)))


def canon(x):
    return json.dumps(x, sort_keys=True, default=str, separators=(",", ":"))
