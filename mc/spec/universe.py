"""The finite specification universe (E-SPEC, DESIGN 2.1): Einsum templates and mapping alphabets."""
import itertools

from mc.spec.build import E, T, V, times, take


def decl_for(exprs, extra=None):
    """declaration derived from plain accesses (rank = upper-case index variable); affine accesses must be
    declared through `extra`"""
    decl = dict(extra or {})
    for e in exprs:
        name, idx = e["out"]
        decl.setdefault(name, [v.upper() for v in idx])
        for _, fs, _ in e["terms"]:
            for f in fs:
                if f[0] == "t" and f[1] not in decl:
                    ranks = []
                    for a in f[2]:
                        assert len(a) == 1 and list(a.values()) == [1], "affine access needs explicit declaration"
                        ranks.append(list(a)[0].upper())
                    decl[f[1]] = ranks
    return decl


def templates(tier):
    """(tag, expr) -- one template per shortcut visible in ir/equation.py, trans/equation.py, ir/iter_graph.py"""
    ts = [
        ("P1", E("Z", ["m", "n"], times(T("A", "k", "m"), T("B", "k", "n")))),
        ("P2", E("Z", ["m"], times(T("A", "k", "m"), T("B", "k", "m"), T("C", "k")))),
        ("P3", E("Z", ["m", "n"], times(T("A", "m"), T("B", "n")))),
        ("P4", E("Z", [], times(T("A", "k"), T("B", "k")))),
        ("P5", E("Z", ["m"], times(T("A", "m"), T("B")))),
        ("P6", E("Z", ["m"], times(V("a"), T("A", "m")))),
        ("P6b", E("Z", ["m"], times(V("a"), V("b")))),
        ("P7", E("Z", ["k", "m"], times(T("A", "k")))),
        ("P9", E("Z", ["m"], times(T("A", "k", "m")))),
        ("S1", E("Z", ["m"], times(T("A", "m")), times(T("B", "m")))),
        ("S2", E("Z", ["m"], times(T("A", "k", "m"), T("B", "k", "m")), times(T("C", "k", "m")))),
        ("S3", E("Z", ["m"], times(T("A", "m")), times(T("B", "m")), times(T("C", "m")))),
        ("S4", E("Z", ["m"], times(V("a"), T("A", "m")), times(V("b"), T("B", "m")))),
        ("T1a", E("Z", ["m"], take(T("A", "m"), T("B", "m"), sel=0))),
        ("T1b", E("Z", ["m"], take(T("A", "m"), T("B", "m"), sel=1))),
        ("T2a", E("Z", ["m"], take(T("A", "k", "m"), T("B", "k"), T("C", "m"), sel=0))),
        ("T2b", E("Z", ["m"], take(T("A", "k", "m"), T("B", "k"), T("C", "m"), sel=1))),
        ("T2c", E("Z", ["m"], take(T("A", "k", "m"), T("B", "k"), T("C", "m"), sel=2))),
        ("T3a", E("Z", ["m"], take(T("A", "m"), T("B", "m"), sel=0), times(T("C", "m")))),
        ("T3b", E("Z", ["m"], times(T("C", "m")), take(T("A", "m"), T("B", "m"), sel=1))),
    ]
    # contraction and broadcast in one Einsum
    ts.append(("P10a", E("Z", ["m", "n"], times(T("A", "k", "m")))))
    ts.append(("P10b", E("Z", ["m", "n"], times(T("A", "k", "m"), T("B", "k")))))
    # several take() terms; take() with a scalar operand (selected and not selected)
    ts.append(("T4", E("Z", ["m"], take(T("A", "m"), T("B", "m"), sel=0), take(T("C", "m"), T("D", "m"), sel=1))))
    ts.append(("T5a", E("Z", ["m"], take(T("A", "m"), V("a"), T("B", "m"), sel=0))))
    ts.append(("T5b", E("Z", ["m"], take(T("A", "m"), V("a"), T("B", "m"), sel=1))))
    ts.append(("T5c", E("Z", ["m", "n"], take(T("A", "k", "m"), V("a"), T("B", "k", "n"), sel=2))))
    # two tensors sharing two contracted ranks: a tensor lacking only part of a flattened tuple is looked up by
    # several coordinates at once
    ts.append(("P8b", E("Z", ["m", "n"], times(T("A", "j", "k", "m"), T("B", "j", "k", "n")))))
    # element-wise products: the output itself holds the ranks that get flattened / partitioned
    ts.append(("EW2", E("Z", ["m", "n"], times(T("A", "m", "n"), T("B", "m", "n")))))
    ts.append(("EW3", E("Z", ["k", "m", "n"], times(T("A", "k", "m", "n"), T("B", "k", "m", "n")))))
    ts.append(("P1ij", rename_vars(ts[0][1], {"m": "i", "n": "j"})))
    if tier != "quick":
        ts.append(("P8", E("Z", ["m", "n"], times(T("A", "j", "k", "m"), T("B", "k", "n"), T("C", "j", "n")))))
        ts.append(("S5", E("Z", ["m", "n"], times(T("A", "m", "n")), times(T("B", "m", "n")))))
    return ts


def rename_vars(expr, ren):
    """the same Einsum with index variables (hence rank names) renamed, e.g. {'m': 'i', 'n': 'j'}: rank names that end in
    'I' collide with the compiler's own naming conventions (intermediate ranks 'K1I', level digits)"""
    def ra(a):
        return {ren.get(v, v): c for v, c in a.items()}
    terms = []
    for kind, fs, sel in expr["terms"]:
        terms.append((kind, [f if f[0] == "v" else ("t", f[1], [ra(a) for a in f[2]]) for f in fs], sel))
    return {"out": (expr["out"][0], [ren.get(v, v) for v in expr["out"][1]]), "terms": terms}


def operand_perms(expr, limit=None):
    """the template with the factors of each term and the terms permuted (take() keeps its selector pointing
    at the same factor)"""
    out, seen = [], set()
    term_variants = []
    for kind, fs, sel in expr["terms"]:
        vs = []
        for perm in itertools.permutations(range(len(fs))):
            nfs = [fs[i] for i in perm]
            nsel = None if sel is None else perm.index(sel)
            vs.append((kind, nfs, nsel))
        term_variants.append(vs)
    for combo in itertools.product(*term_variants):
        for tperm in itertools.permutations(combo):
            e = {"out": expr["out"], "terms": list(tperm)}
            k = repr(e)
            if k not in seen:
                seen.add(k)
                out.append(e)
    return out[:limit] if limit else out


def expr_ranks(expr):
    """all einsum ranks in order of first appearance (output first)"""
    from mc.model.dense import expr_vars
    return [v.upper() for v in expr_vars(expr)]


def rank_order_choices(decl, tensors):
    """every combination of per-tensor rank orders; identity is expressed by omission"""
    per = []
    for t in tensors:
        ranks = decl[t]
        per.append([(t, list(p)) for p in itertools.permutations(ranks)])
    for combo in itertools.product(*per):
        ro = {t: p for t, p in combo if p != decl[t]}
        yield ro


def pareto_extents(ranks, cells_fn, values, max_cells):
    """Pareto-maximal extent vectors over `values` whose input-cell count is within the bound"""
    vecs = []
    for v in itertools.product(values, repeat=len(ranks)):
        ext = dict(zip(ranks, v))
        if cells_fn(ext) <= max_cells:
            vecs.append(v)
    keep = []
    for v in vecs:
        if not any(w != v and all(a >= b for a, b in zip(w, v)) for w in vecs):
            keep.append(dict(zip(ranks, v)))
    return keep
