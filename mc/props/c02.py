"""C02 -- shape-based partitioning never changes the result and is undone on the output.

E-SPEC x E-DATA: templates x subsets of ranks x shape stacks x loop orders over the rank levels x extents x all
presence patterns.  Oracle: output (declared name, declared rank ids, original coordinates) == dense evaluation.
"""
import itertools

from mc.core import cfgcheck
from mc.core.par import pmap
from mc.core import execspec as X
from mc.spec import universe as U
from mc.spec import build as B

LEVEL = "exploration"

U2, U3, U7, N2, N3, US = ("uniform_shape(2)", "uniform_shape(3)", "uniform_shape(7)", "nway_shape(2)",
                           "nway_shape(3)", "uniform_shape(SZ)")
STACKS1 = [[U2], [U3], [U7], [N2], [N3], [US]]
STACKS2 = [[U2, "uniform_shape(1)"], [N2, "uniform_shape(1)"], [U3, U2], [U2, U2], [N2, N2]]
STACKS3 = [[U3, U2, "uniform_shape(1)"], [N2, U2, "uniform_shape(1)"], [U2, "uniform_shape(1)", U2]]
SIZE_MENU = (1, 2, 3)


def levels(rank, n):
    return ["%s%d" % (rank, i) for i in range(n, -1, -1)]


def loop_ranks(ranks, part):
    out = []
    for r in ranks:
        out.append(levels(r, len(part[r])) if r in part else [r])
    return out


def monotone_orders(groups):
    """all interleavings of the groups that keep each group's internal order"""
    total = sum(len(g) for g in groups)

    def rec(pos):
        if all(p == len(g) for p, g in zip(pos, groups)):
            yield []
            return
        for i, g in enumerate(groups):
            if pos[i] < len(g):
                npos = list(pos)
                npos[i] += 1
                for rest in rec(npos):
                    yield [g[pos[i]]] + rest
    return list(rec([0] * len(groups)))


def orders(groups, all_perm_limit):
    flat = [x for g in groups for x in g]
    if len(flat) <= all_perm_limit:
        return [list(p) for p in itertools.permutations(flat)]
    return monotone_orders(groups)


def configs(ctx):
    work = []
    quick = ctx.quick
    tags = ["P1", "P1ij", "P2", "P3", "P7", "S1", "S2", "T2b", "P9"]
    tmpl = dict(U.templates("thorough"))
    max_cells = ctx.pick(10, 11)
    for tag in tags:
        # (P1ij is P1 with ranks named I, J: it is there for the naming rules and keeps the quick parameters in both tiers)
        quick = ctx.quick or tag == "P1ij"
        expr = tmpl[tag]
        decl = U.decl_for([expr])
        ranks = U.expr_ranks(expr)
        spec0 = {"decl": decl, "exprs": [expr]}
        subsets = [s for n in (1, 2, 3) for s in itertools.combinations(ranks, n)]
        for sub in subsets:
            if quick and len(sub) > 2:
                continue
            if len(sub) == 1:
                stacksets = [[s] for s in STACKS1 + STACKS2 + ([] if quick else STACKS3)]
            elif len(sub) == 2:
                menu = [[U2], [N2], [U3]] if quick else STACKS1[:5] + STACKS2[:1]
                stacksets = [list(c) for c in itertools.product(menu, repeat=2)]
                if not quick:
                    stacksets = [c for c in stacksets if sum(len(s) for s in c) <= 3]
            else:
                stacksets = [[[U2], [N2], [U3]], [[U2], [U2], [U2]]]
            for stacks in stacksets:
                part = dict(zip(sub, stacks))
                groups = loop_ranks(ranks, part)
                nloop = sum(len(g) for g in groups)
                los = orders(groups, 4 if quick else 5)
                if quick:
                    cap = 24 if (tag == "P1" and len(sub) == 1) else 8
                    if len(los) > cap:
                        los = los[::-(-len(los) // cap)]
                sizes_menu = SIZE_MENU if any(US in s for s in stacks) else (None,)
                exts, mc_ = [], max_cells
                while not exts:
                    exts = U.pareto_extents(sorted(set(r for rs in decl.values() for r in rs)),
                                            lambda e: X.n_cells(spec0, e) if all(e[r] >= 2 for r in sub) else 10 ** 9,
                                            (1, 2, 3) if quick else (1, 2, 3, 4, 5), mc_)
                    mc_ += 1
                # extent vectors must give the partitioned ranks room: keep those maximal in the partitioned ranks
                best = max(sum(e[r] for r in sub) for e in exts)
                exts = [e for e in exts if sum(e[r] for r in sub) >= best - (0 if quick else 1)]
                for lo in [None] + los:
                    for sz in sizes_menu:
                        mapping = {"partitioning": {"Z": {r: list(s) for r, s in part.items()}}}
                        if lo is not None:
                            mapping["loop-order"] = {"Z": lo}
                        cfg = {"tag": "%s/%s" % (tag, "+".join(sub)), "spec": {"decl": decl, "exprs": [expr], "mapping": mapping},
                               "extents": exts}
                        if sz is not None:
                            cfg["sizes"] = {"SZ": sz}
                        work.append(cfg)
    quick = ctx.quick
    # affine Einsums whose *non-output* index ranks are shape-partitioned (no follower, hence no halos)
    from mc.spec.build import E, T, times
    d1 = {"I": ["W"], "F": ["S"], "O": ["Q"]}
    e1 = E("O", ["q"], times(T("I", {"q": 1, "s": 1}), T("F", "s")))
    e1b = E("O", ["q"], times(T("F", "s"), T("I", {"s": 1, "q": 2})))
    for tagx, ex, ext in (("CV1", e1, {"Q": 2, "S": 3, "W": 4}), ("CV1s", e1b, {"Q": 2, "S": 3, "W": 5})):
        for st in ([U2], [N2], [U2, "uniform_shape(1)"], [U3]):
            groups = [["Q"], levels("S", len(st))]
            for lo in [None] + monotone_orders(groups):
                mapping = {"partitioning": {"O": {"S": list(st)}}}
                if lo is not None:
                    mapping["loop-order"] = {"O": lo}
                work.append({"tag": "%s/S" % tagx, "spec": {"decl": d1, "exprs": [ex], "mapping": mapping}, "extents": [ext]})
    d3 = {"I": ["W"], "F": ["S"], "G": ["V"], "O": ["Q"]}
    e3 = E("O", ["q"], times(T("I", {"q": 1, "s": 1, "v": 1}), T("F", "s"), T("G", "v")))
    for part in ({"S": [U2], "V": ["uniform_shape(1)"]}, {"S": [U2], "V": [U2]}, {"V": [N2]}):
        groups = [["Q"]] + [levels(r, len(st)) if r in part else [r] for r, st in (("S", part.get("S")), ("V", part.get("V")))]
        los = monotone_orders(groups)
        if quick:
            los = los[:: -(-len(los) // 8)]
        for lo in [None] + los:
            mapping = {"partitioning": {"O": {r: list(v) for r, v in part.items()}}}
            if lo is not None:
                mapping["loop-order"] = {"O": lo}
            work.append({"tag": "CV3/" + "+".join(part), "spec": {"decl": d3, "exprs": [e3], "mapping": mapping},
                         "extents": [{"Q": 2, "S": 2, "V": 2, "W": 4}]})
    return work


RULE = ("templates {P1,P2,P3,P7,P9,S1,S2,T2} x subsets of ranks x shape stacks (uniform/nway, literal, oversized, "
        "symbolic, 1-3 levels) x loop orders over the rank levels (all permutations up to the stated number of loop "
        "ranks, level-monotone interleavings beyond) x extent vectors x all presence patterns; distinct_nontrivial "
        "counts distinct (configuration, extents, output polynomial) with non-empty output")


def run(ctx):
    work = configs(ctx)
    res = pmap(cfgcheck.check_cfg, work, jobs=ctx.jobs, seed=ctx.seed, progress="C02")
    cov, viols = cfgcheck.aggregate(work, res, "C02", rule=RULE)
    cov["samples"] = [{"tag": w["tag"], "einsum": [B.render_expr(e) for e in w["spec"]["exprs"]],
                       "mapping": w["spec"]["mapping"], "extents": w["extents"], "sizes": w.get("sizes"), "executions": r["n"]}
                      for w, r in list(zip(work, res))[:: max(1, len(work) // 5)]][:6]
    return {"level": LEVEL, "coverage": cov, "violations": viols,
            "assumptions": ["reference HiFiber model stands in for fibertree (splitUniform without halos: policy-independent)"]}


def replay(ctx, case):
    return cfgcheck.replay_cfg("C02", case)
