"""C03 -- occupancy partitioning and flattening never change the result.

E-SPEC x E-DATA over product Einsums: leader choices x occupancy stacks x flatten tuples (optionally followed by
occupancy partitioning of the flattened rank) x level-monotone loop orders x extents x all presence patterns.
"""
import copy
import itertools

from mc.core import cfgcheck
from mc.core.par import pmap
from mc.core import execspec as X
from mc.spec import universe as U
from mc.spec import build as B
from mc.props.c02 import monotone_orders, levels

LEVEL = "exploration"

# errors the property statement allows the compiler to answer with (counted, not judged)
STATED_REJECTS = ["output-only flattened rank", "with a leader of a different rank", "Cannot flatten together"]


def occ(leader, n):
    return "uniform_occupancy(%s.%d)" % (leader, n)


def holders(decl, expr, rank):
    return [t for t in B.read_tensors(expr) if rank in decl[t]]


def configs(ctx):
    quick = ctx.quick
    work = []
    tmpl = dict(U.templates("thorough"))
    tags = ["P1", "P1ij", "P2", "P8b", "EW2", "EW3"] + ([] if quick else ["P8"])
    for tag in tags:
        # (P1ij is P1 with ranks named I, J: it keeps the quick parameters in both tiers)
        quick = ctx.quick or tag == "P1ij"
        expr = tmpl[tag]
        decl = U.decl_for([expr])
        ranks = U.expr_ranks(expr)
        spec0 = {"decl": decl, "exprs": [expr]}
        allranks = sorted(set(r for rs in decl.values() for r in rs))

        def exts_for(need, max_cells):
            ex, mc_ = [], max_cells
            while not ex:
                ex = U.pareto_extents(allranks, lambda e: X.n_cells(spec0, e) if all(e[r] >= 2 for r in need) else 10 ** 9,
                                      (1, 2, 3) if quick else (1, 2, 3, 4), mc_)
                mc_ += 1
            best = max(sum(e[r] for r in need) for e in ex)
            return [e for e in ex if sum(e[r] for r in need) >= best - (0 if quick else 1)]

        max_cells = (10 if quick else (12 if tag in ("P1", "EW3") else 11)) if tag != "P8" else 12

        def add(part, chains, need, label, sizes=None):
            los = monotone_orders(chains)
            if tag in ("P8", "P8b", "EW3") and len(los) > (4 if quick else 12):
                cap_ = (2 if tag == "EW3" else 4) if quick else 12
                los = los[::-(-len(los) // cap_)]
            exts = exts_for(need, max_cells)
            if quick and tag in ("EW3", "P8b", "P1ij"):
                exts = exts[:1]
            # P8b: both storage orders of the tensor that is looked up with two coordinates
            ros = [None] if tag != "P8b" else [None, {"B": ["K", "J", "N"]}]
            for lo in [None] + los:
                for ro in ros:
                    mapping = {"partitioning": {"Z": copy.deepcopy(part)}}
                    if lo is not None:
                        mapping["loop-order"] = {"Z": lo}
                    if ro:
                        mapping["rank-order"] = ro
                    cfg = {"tag": "%s/%s" % (tag, label), "spec": {"decl": decl, "exprs": [expr], "mapping": mapping},
                           "extents": exts, "allowed_rejects": STATED_REJECTS}
                    if sizes:
                        cfg["sizes"] = sizes
                    work.append(cfg)

        # (a) occupancy partitioning of one rank, every leader holding it
        for r in (ranks if not (quick and tag in ("P8b", "EW3")) else []):
            others = [[x] for x in ranks if x != r]
            for L in holders(decl, expr, r):
                stacks = [[occ(L, 1)], [occ(L, 2)], [occ(L, 2), occ(L, 1)], ["uniform_shape(2)", occ(L, 1)]]
                if not quick:
                    stacks += [[occ(L, 3), occ(L, 2), occ(L, 1)], ["uniform_shape(3)", occ(L, 2), occ(L, 1)], [occ(L, 3)]]
                for st in stacks:
                    add({r: st}, [levels(r, len(st))] + others, [r], "occ:%s@%s" % (r, L))
                # mixed leaders across levels
                Ls = holders(decl, expr, r)
                if len(Ls) > 1:
                    L2 = [x for x in Ls if x != L][0]
                    add({r: [occ(L, 2), occ(L2, 1)]}, [levels(r, 2)] + others, [r], "occ2:%s@%s,%s" % (r, L, L2))
        # (b) occupancy partitioning of two ranks
        for r1, r2 in itertools.combinations(ranks, 2):
            if (quick and tag != "P1") or tag in ("P8b", "EW3"):
                continue
            for L1 in holders(decl, expr, r1)[:1 if quick else None]:
                for L2 in holders(decl, expr, r2)[:1 if quick else None]:
                    others = [[x] for x in ranks if x not in (r1, r2)]
                    add({r1: [occ(L1, 1)], r2: [occ(L2, 1)]}, [levels(r1, 1), levels(r2, 1)] + others, [r1, r2],
                        "occ:%s@%s+%s@%s" % (r1, L1, r2, L2))
                    if not quick:
                        add({r1: ["uniform_shape(2)"], r2: [occ(L2, 2), occ(L2, 1)]}, [levels(r1, 1), levels(r2, 2)] + others,
                            [r1, r2], "shape:%s+occ2:%s@%s" % (r1, r2, L2))
        # (c) flattening of rank tuples of one tensor, optionally + occupancy of the flattened rank
        for t in decl:
            tr = decl[t]
            tuples = [p for n in (2, 3) for p in itertools.permutations(tr, n)]
            if quick and tag == "EW3":
                tuples = [p for p in tuples if len(p) == 2 or p in (tuple(tr), tuple(tr[::-1]))]
            for tup in tuples:
                flat = "".join(tup)
                others = [[x] for x in ranks if x not in tup]
                key = "(%s)" % ", ".join(tup)
                need_ = list(tup) if not (tag == "EW3" and len(tup) == 3) else list(tup[:2])
                add({key: ["flatten()"]}, [[flat]] + others, need_, "flat:%s@%s" % (flat, t))
                if tag == "EW3" and len(tup) == 3:
                    continue
                for L in B.read_tensors(expr):
                    if not set(tup) <= set(decl[L]):
                        continue
                    for n in ((1, 2) if not quick else (2,)):
                        add({key: ["flatten()"], flat: [occ(L, n)]}, [levels(flat, 1)] + others, list(tup),
                            "flat+occ:%s@%s" % (flat, L))
                    if not quick:
                        add({key: ["flatten()"], flat: [occ(L, 2), occ(L, 1)]}, [levels(flat, 2)] + others, list(tup),
                            "flat+occ2:%s@%s" % (flat, L))
        # (d) flattening a partition level with another rank: X:[U(2)], (Y, X0): flatten, [YX0: occupancy]
        for t in (B.read_tensors(expr) if tag != "P8b" else []):
            tr = decl[t]
            for x, y in itertools.permutations(tr, 2):
                for tup in ((y, x + "0"), (x + "0", y)):
                    flat = "".join(tup)
                    key = "(%s)" % ", ".join(tup)
                    others = [[r] for r in ranks if r not in (x, y)]
                    add({x: ["uniform_shape(2)"], key: ["flatten()"]}, [[x + "1", flat]] + others, [x, y], "lvlflat:%s@%s" % (flat, t))
                    add({x: ["uniform_shape(2)"], key: ["flatten()"], flat: [occ(t, 2)]},
                        [[x + "1", flat + "1", flat + "0"]] + others, [x, y], "lvlflat+occ:%s@%s" % (flat, t))
                    # the bottom level of a TWO-level occupancy split flattened with another rank
                    if tup[0] == y:
                        add({x: [occ(t, 2), occ(t, 1)], key: ["flatten()"]}, [[x + "2", x + "1", flat]] + others, [x, y],
                            "occ2flat:%s@%s" % (flat, t))
    from mc.spec.build import E as E_, T as T_, times as times_
    quick = ctx.quick
    d4 = {"A": ["M", "N", "P", "Q"], "B": ["M", "N", "P", "Q"], "Z": ["M", "N", "P", "Q"]}
    e4 = E_("Z", ["m", "n", "p", "q"], times_(T_("A", "m", "n", "p", "q"), T_("B", "m", "n", "p", "q")))
    for part, ext in (({"(M, N)": ["flatten()"], "(P, Q)": ["flatten()"]}, {"M": 2, "N": 1, "P": 2, "Q": 1}),
                      ({"(M, P)": ["flatten()"], "(N, Q)": ["flatten()"]}, {"M": 2, "N": 1, "P": 2, "Q": 1}),
                      ({"M": ["uniform_shape(2)"], "(P, Q)": ["flatten()"]}, {"M": 3, "N": 1, "P": 2, "Q": 1}),
                      ({"(M, N)": ["flatten()"], "P": ["uniform_shape(2)"], "(Q, P0)": ["flatten()"]}, {"M": 2, "N": 1, "P": 3, "Q": 1}),
                      ({"(M, N)": ["flatten()"]}, {"M": 2, "N": 2, "P": 1, "Q": 2}),
                      ({"(N, P)": ["flatten()"]}, {"M": 2, "N": 2, "P": 1, "Q": 2})):
        work.append({"tag": "EW4/flat2:" + "+".join(part), "spec": {"decl": d4, "exprs": [e4], "mapping": {"partitioning": {"Z": part}}},
                     "extents": [ext], "allowed_rejects": STATED_REJECTS})
    # identical (Einsum, mapping, sizes) generated through different tensors: keep one
    seen, uniq = set(), []
    for w in work:
        k = B.spec_key(w["spec"], sizes=w.get("sizes"))
        if k not in seen:
            seen.add(k)
            uniq.append(w)
    work = uniq
    # (e) the accelerator mappings (architecture stripped, sizes from the menu)
    decl = {"A": ["K", "M"], "B": ["K", "N"], "Z": ["M", "N"]}
    expr = dict(U.templates("quick"))["P1"]
    spec0 = {"decl": decl, "exprs": [expr]}
    exts = [{"K": 3, "M": 2, "N": 1}, {"K": 2, "M": 2, "N": 2}] + ([] if quick else [{"K": 3, "M": 3, "N": 1}, {"K": 4, "M": 2, "N": 1}])
    for s1, s2 in itertools.product((1, 2, 3), (1, 2)):
        # sigma
        work.append({"tag": "ACC/sigma", "extents": exts, "allowed_rejects": STATED_REJECTS, "spec": {
            "decl": decl, "exprs": [expr], "mapping": {
                "partitioning": {"Z": {"K": ["uniform_shape(%d)" % s1], "(M, K0)": ["flatten()"], "MK0": [occ("A", s2)]}},
                "loop-order": {"Z": ["K1", "MK01", "N", "MK00"]}}}})
        # extensor-like: shape then shape on all ranks
        work.append({"tag": "ACC/extensor", "extents": exts, "allowed_rejects": STATED_REJECTS, "spec": {
            "decl": decl, "exprs": [expr], "mapping": {
                "partitioning": {"Z": {"K": ["uniform_shape(%d)" % (s1 + 1), "uniform_shape(%d)" % s2],
                                       "M": ["uniform_shape(%d)" % (s1 + 1), "uniform_shape(%d)" % s2],
                                       "N": ["uniform_shape(%d)" % (s1 + 1), "uniform_shape(%d)" % s2]}},
                "loop-order": {"Z": ["N2", "K2", "M2", "M1", "N1", "K1", "M0", "N0", "K0"]}}}})
        # demo: shape + two occupancy levels on M and N with symbolic sizes
        work.append({"tag": "ACC/demo", "extents": exts, "allowed_rejects": STATED_REJECTS,
                     "sizes": {"M2": s1 + 1, "M1": 2, "M0": s2, "N2": s1 + 1, "N1": 2, "N0": s2},
                     "spec": {"decl": decl, "exprs": [expr], "mapping": {
                         "partitioning": {"Z": {"M": ["uniform_shape(M2)", "uniform_occupancy(A.M1)", "uniform_occupancy(A.M0)"],
                                                "N": ["uniform_shape(N2)", "uniform_occupancy(B.N1)", "uniform_occupancy(B.N0)"]}},
                         "loop-order": {"Z": ["M3", "N3", "K", "M2", "N2", "M1", "N1", "M0", "N0"]}}}})
    return work


RULE = ("product templates x (rank, leader holding it) x occupancy stacks (1-3 levels, alone or beneath a shape split, mixed "
        "leaders) x flatten tuples of 2-3 ranks of one tensor (incl. a partition level) optionally followed by occupancy "
        "partitioning of the flattened rank x all level-monotone loop orders (and omitted) x extents x all presence patterns; "
        "sigma/extensor/demo mappings with every size of the menu; distinct_nontrivial = distinct (configuration, extents, output)")


def run(ctx):
    work = configs(ctx)
    res = pmap(cfgcheck.check_cfg, work, jobs=ctx.jobs, seed=ctx.seed, progress="C03")
    cov, viols = cfgcheck.aggregate(work, res, "C03", rule=RULE)
    ok = [(w, r) for w, r in zip(work, res) if r["status"] == "ok"]
    cov["accepted_configurations"] = len(ok)
    cov["samples"] = [{"tag": w["tag"], "einsum": [B.render_expr(e) for e in w["spec"]["exprs"]],
                       "mapping": w["spec"]["mapping"], "extents": w["extents"], "executions": r["n"]}
                      for w, r in ok[:: max(1, len(ok) // 5)]][:6]
    return {"level": LEVEL, "coverage": cov, "violations": viols,
            "assumptions": ["reference HiFiber model stands in for fibertree (splitEqual/splitNonUniform/flattenRanks semantics of DESIGN 2.2)"]}


def replay(ctx, case):
    return cfgcheck.replay_cfg("C03", case)
