"""C08 -- emission-order nondeterminism is benign  (E-SCHED)

The import hook of mc/instr/vset.py owns every iteration over a set inside teaal.  For each specification of a slice
(>= 2 partitioned ranks, flattening, metrics bindings, the accelerator files):
  * every set-order choice sequence with <= d deviations from the canonical order is explored (level by level; complete
    when the space is small); each distinct emitted text must be closed (C06 analysis) and compute, on all presence
    patterns, the tensors of the Einsum (hence those of the canonical text); a compilation that fails under one order and
    succeeds under another is a violation;
  * real interpreters started with K different PYTHONHASHSEED values compile every specification twice (the two texts
    must be identical), record the orders CPython actually produced, and every such text gets the same oracles;
  * ownership proof: replaying each recorded order vector under the controlled scheduler (hash seed 0) must reproduce the
    recorded text byte for byte -- otherwise the harness does not own the nondeterminism (HARNESS-INCOMPLETE, exit 2).
"""
from mc.instr import vset
vset.install()          # must precede every import of teaal

import copy              # noqa: E402
import json              # noqa: E402
import os                # noqa: E402
import subprocess        # noqa: E402
import sys               # noqa: E402

from mc.analysis import closure              # noqa: E402
from mc.core import execspec as X            # noqa: E402
from mc.core.explore import Chooser, explore_many  # noqa: E402
from mc.core.par import pmap, HarnessError   # noqa: E402
from mc.core.paths import REPO, VERIF        # noqa: E402
from mc.spec import build as B               # noqa: E402
from mc.spec import corpus                   # noqa: E402

LEVEL = "model_checking"
_SLICE = []


def slice_entries(ctx):
    from mc.props import c02, c03, c05, c11
    Q = corpus._Q
    out = []

    def add(tag, w, mode="plain", ext=None):
        e = ext or min(w["extents"], key=lambda e: X.n_cells(w["spec"], e))
        out.append({"tag": tag, "yaml": B.to_yaml(w["spec"]), "mode": mode, "spec": w["spec"], "extents": e, "sizes": w.get("sizes")})
    n = ctx.pick(1, 5)
    w2 = [w for w in c02.configs(Q) if "+" in w["tag"] and w["tag"].startswith(("P1/", "P2/", "S2/", "P3/"))]
    for w in w2[:: max(1, len(w2) // (6 * n))]:
        add("C02:" + w["tag"], w)
    w3 = [w for w in c03.configs(Q) if not w["tag"].startswith("EW3") and ("flat" in w["tag"] or "+" in w["tag"] or "occ2" in w["tag"] or w["tag"].startswith("ACC"))]
    for w in w3[:: max(1, len(w3) // (10 * n))]:
        add("C03:" + w["tag"], w)
    w11 = [w for w in c11.configs(Q) if len(w["labels"]) >= 1 and not w["tag"].startswith(("conv", "mm/occ|mrgx:A"))]
    seen = set()
    for w in w11:
        kinds = tuple(sorted(l.split(":")[0] + ("/eager" if l.endswith("/eager") else "") for l in w["labels"]))
        k = (w["tag"].split("|")[0].split("/")[0], kinds)
        if k in seen or (len(kinds) == 2 and not (set(kinds) & {"buf/eager", "buf2x"})):
            continue
        seen.add(k)
        add("C11:" + w["tag"], {"spec": w["spec"], "extents": w["extents"]}, mode="metrics", ext=w["extents"][0])
    if ctx.quick:
        keep = [e for e in out if e["tag"].startswith("C11:")]
        out = [e for e in out if not e["tag"].startswith("C11:")] + keep[:: max(1, len(keep) // 14)]
    for h in c05.histories(["shape2", "occ", "flat"], 2)[:: (4 if ctx.quick else 1)]:
        spec = c05.build_spec(h)
        out.append({"tag": "C05:" + "+".join(e for e, _ in h), "yaml": B.to_yaml(spec), "mode": "plain", "spec": spec,
                    "extents": dict(c05.EXTENTS), "sizes": None})
    # several independent partitionings of ONE tensor (their relative order is a set order)
    from mc.spec.build import E, T, times
    d4 = {"A": ["M", "N", "P", "Q"], "B": ["M", "N", "P", "Q"], "Z": ["M", "N", "P", "Q"]}
    e4 = E("Z", ["m", "n", "p", "q"], times(T("A", "m", "n", "p", "q"), T("B", "m", "n", "p", "q")))
    for part, ext in (({"(M, P)": ["flatten()"], "(N, Q)": ["flatten()"]}, {"M": 2, "N": 1, "P": 2, "Q": 1}),
                      ({"(M, N)": ["flatten()"], "(P, Q)": ["flatten()"]}, {"M": 1, "N": 2, "P": 2, "Q": 1}),
                      ({"M": ["uniform_shape(2)"], "(P, Q)": ["flatten()"]}, {"M": 3, "N": 1, "P": 2, "Q": 1}),
                      ({"M": ["uniform_shape(2)"], "N": ["uniform_shape(1)"], "(P, Q)": ["flatten()"]}, {"M": 2, "N": 2, "P": 1, "Q": 1})):
        spec = {"decl": d4, "exprs": [e4], "mapping": {"partitioning": {"Z": part}}}
        out.append({"tag": "EW4:" + "+".join(part), "yaml": B.to_yaml(spec), "mode": "plain", "spec": spec, "extents": ext, "sizes": None})
    d3 = {"A": ["K", "M", "N"], "B": ["K", "M", "N"], "Z": ["K", "M", "N"]}
    e3 = E("Z", ["k", "m", "n"], times(T("A", "k", "m", "n"), T("B", "k", "m", "n")))
    for part, ext in (({"K": ["uniform_shape(2)"], "(M, N)": ["flatten()"]}, {"K": 3, "M": 1, "N": 2}),
                      ({"K": ["uniform_shape(2)"], "M": ["uniform_shape(1)"], "N": ["nway_shape(2)"]}, {"K": 2, "M": 2, "N": 2})):
        spec = {"decl": d3, "exprs": [e3], "mapping": {"partitioning": {"Z": part}}}
        out.append({"tag": "EW3:" + "+".join(part), "yaml": B.to_yaml(spec), "mode": "plain", "spec": spec, "extents": ext, "sizes": None})
    for fname, y in corpus.yaml_files():
        if fname in ("extensor.yaml", "gamma.yaml", "sigma.yaml", "outerspace.yaml", "test_input.yaml", "extensor-energy.yaml"):
            mode = "metrics" if ("architecture" in y and "bindings" in y) else "plain"
            out.append({"tag": "file:" + fname, "yaml": y, "mode": mode, "spec": None, "extents": None, "sizes": None})
    return out


def judge_text(entry, text):
    """oracles on one emitted text: closed, and (when a structured spec is available) correct on all presence patterns"""
    err, probs = closure.analyse(text, closure.supplied_from_yaml(entry["yaml"]))
    ranks_ = [r for rs in entry["yaml"]["einsum"]["declaration"].values() for r in rs]
    probs = [p for p in probs if not (p.site.startswith("iterRangeShapeRef") and p.name[-1:].isdigit())   # F1, F17: see C06 / C16
             and not closure.is_flattened_name(p.name, ranks_)]
    if err or probs:
        return "not-closed", "emitted text is not closed: %s" % (err or probs[:3]), 0
    if entry.get("spec") is None:
        return None, None, 0
    r = X.sweep(text, entry["spec"], entry["extents"], sizes=entry.get("sizes"), max_fail=1, standins=entry["mode"] == "metrics")
    if r["fails"]:
        mask, kind, msg = r["fails"][0]
        return "wrong-result", "%s on pattern mask %d: %s" % (kind, mask, msg), r["n"]
    return None, None, r["n"]


def run_item(item):
    i, prefix = item
    entry = _SLICE[i]
    ch = Chooser(prefix)
    vset.reset("choose", ch)
    res = {"text": None, "rejected": None, "sites": []}
    try:
        h, text = corpus.compile_entry(entry)
        ch.finish()
        res["text"] = text
        res["sites"] = sorted(set(ch.labels))
    except HarnessError:
        raise
    except Exception as e:
        res["rejected"] = "%s: %s" % (type(e).__name__, str(e)[:80])
    finally:
        vset.reset("off")
    return ch.choices, ch.arity, res


def judge_item(item):
    i, text = item
    return judge_text(_SLICE[i], text)


RECORDER = r"""
import sys, json
sys.path[:0] = [%r, %r]
from mc.instr import vset
vset.install()
from mc.spec import corpus
entries = json.loads(sys.stdin.read())
out = []
for e in entries:
    rec = {"tag": e["tag"]}
    try:
        vset.reset("record")
        t1 = corpus.compile_entry(e)[1]
        log = [(s, list(k), o) for s, k, o in vset.Ctl.log]
        vset.reset("off")
        t2 = corpus.compile_entry(e)[1]
        rec.update(text=t1, log=log, same=(t1 == t2), second=t2 if t1 != t2 else None)
    except Exception as ex:
        rec.update(error="%%s: %%s" %% (type(ex).__name__, str(ex)[:80]))
    out.append(rec)
print(json.dumps(out))
"""


def record_seed(item):
    seed, entries = item
    env = dict(os.environ, PYTHONHASHSEED=str(seed), PYTHONDONTWRITEBYTECODE="1")
    p = subprocess.run([sys.executable, "-c", RECORDER % (VERIF, REPO)], input=json.dumps(entries), capture_output=True, text=True, env=env)
    if p.returncode != 0:
        raise HarnessError("recorder under PYTHONHASHSEED=%s failed: %s" % (seed, p.stderr[-500:]))
    return seed, json.loads(p.stdout)


def replay_item(item):
    i, log = item
    prefix = [c for (_, _, o) in log for c in vset.order_to_choices(o)]
    ch = Chooser(prefix)
    vset.reset("choose", ch)
    try:
        h, text = corpus.compile_entry(_SLICE[i])
        ch.finish()
        return text, None
    except HarnessError as e:
        return None, str(e)
    except Exception as e:
        return None, "%s: %s" % (type(e).__name__, e)
    finally:
        vset.reset("off")


def run(ctx):
    sl = slice_entries(ctx)
    del _SLICE[:]
    _SLICE.extend(sl)
    max_dev = ctx.pick(1, 2)
    budget = ctx.pick(60, 400)
    infos = explore_many(len(sl), lambda items: pmap(run_item, items, jobs=ctx.jobs, seed=ctx.seed, chunk=4), max_dev, budget)
    viols = []
    texts = [dict() for _ in sl]      # text -> first prefix
    schedules = 0
    per_spec = []
    sites = set()
    for i, (e, inf) in enumerate(zip(sl, infos)):
        for _, r in inf["executions"]:
            sites.update(r.get("sites", ()))
        rej = [(p, r["rejected"]) for p, r in inf["executions"] if r["rejected"]]
        acc = [(p, r["text"]) for p, r in inf["executions"] if r["text"] is not None]
        schedules += inf["runs"]
        for p, t in acc:
            texts[i].setdefault(t, p)
        if rej and acc:
            viols.append({"sig": {"kind": "order-dependent-failure", "tag": e["tag"].split("|")[0]},
                          "msg": "%s: compilation fails under set order %r (%s) but succeeds under %r" % (e["tag"], rej[0][0], rej[0][1], acc[0][0]),
                          "case": {"entry": e, "prefix": rej[0][0], "other_prefix": acc[0][0]}})
        per_spec.append({"tag": e["tag"], "schedules": inf["runs"], "per_deviation_level": inf["levels"], "completed_bound": inf["completed_bound"],
                         "exhaustive": inf["exhaustive"], "distinct_texts": len(texts[i])})
    # real hash seeds: record in separate interpreters
    seeds = [1 + ctx.seed * 100 + k for k in range(ctx.pick(6, 24))]
    payload = [{"tag": e["tag"], "yaml": e["yaml"], "mode": e["mode"]} for e in sl]
    recs = pmap(record_seed, [(s, payload) for s in seeds], jobs=min(ctx.jobs, len(seeds)), chunk=1)
    real_texts = 0
    replay_work = []
    for seed, rs in recs:
        for i, r in enumerate(rs):
            if "error" in r:
                if texts[i]:
                    viols.append({"sig": {"kind": "seed-dependent-failure", "tag": sl[i]["tag"].split("|")[0]},
                                  "msg": "%s fails to compile under PYTHONHASHSEED=%d (%s) but compiles under the controlled scheduler" % (sl[i]["tag"], seed, r["error"]),
                                  "case": {"entry": sl[i], "seed": seed}, "no_recheck": True})
                continue
            real_texts += 1
            if not r["same"]:
                viols.append({"sig": {"kind": "same-process-different-text", "tag": sl[i]["tag"].split("|")[0]},
                              "msg": "%s: two compilations in one interpreter (PYTHONHASHSEED=%d) give different texts\n%s" % (
                                  sl[i]["tag"], seed, first_line_diff(r["text"], r["second"])),
                              "case": {"entry": sl[i], "seed": seed}, "no_recheck": True})
            texts[i].setdefault(r["text"], ("seed", seed))
            replay_work.append((seed, i, r))
    # every distinct text (explored or real) is judged
    jobs = [(i, t) for i in range(len(sl)) for t in texts[i]]
    jres = pmap(judge_item, jobs, jobs=ctx.jobs, seed=ctx.seed, chunk=2)
    execs = 0
    for (i, t), (kind, msg, n) in zip(jobs, jres):
        execs += n
        if kind:
            origin = texts[i][t]
            viols.append({"sig": {"kind": kind, "tag": sl[i]["tag"].split("|")[0]},
                          "msg": "%s, %s: %s\n--- emitted program ---\n%s" % (sl[i]["tag"], ("set order %r" % (origin,)) if not (isinstance(origin, tuple) and origin and origin[0] == "seed") else "PYTHONHASHSEED=%d" % origin[1], msg, t),
                          "case": {"entry": sl[i], "prefix": origin if isinstance(origin, list) else None, "text": t}})
    # ownership proof
    rres = pmap(replay_item, [(i, r["log"]) for _, i, r in replay_work], jobs=ctx.jobs, seed=ctx.seed, chunk=4)
    incomplete = []
    for (seed, i, r), (text, err) in zip(replay_work, rres):
        if text != r["text"]:
            incomplete.append("%s under PYTHONHASHSEED=%d: %s" % (sl[i]["tag"], seed, err or first_line_diff(r["text"], text)))
    uniq = {}
    for v in viols:
        uniq.setdefault((v["sig"]["kind"], v["sig"]["tag"]), v)
    ntexts = sum(len(t) for t in texts)
    cov = {"states": ntexts, "transitions": schedules + real_texts, "traces_validated_against_impl": len(replay_work) - len(incomplete),
           "specifications": len(sl), "schedules_explored": schedules, "max_deviations": max_dev, "budget_per_specification": budget,
           "real_hash_seeds": seeds, "real_seed_compilations": real_texts, "distinct_texts_judged": ntexts,
           "executions_on_reference_model": execs, "set_iteration_sites_with_choices": sorted(s.rsplit(":", 1)[0] for s in sites),
           "specifications_enumerated_completely": sum(1 for inf in infos if inf["exhaustive"]), "exhaustive": False,
           "explanation": "states = distinct emitted texts reached (per specification); transitions = compilations performed under a controlled or "
                          "real order; traces_validated_against_impl = real-seed order vectors whose replay under the controlled scheduler "
                          "reproduced the real interpreter's text byte for byte",
           "samples": per_spec[:: max(1, len(per_spec) // 6)][:8]}
    if incomplete and not uniq:
        raise HarnessError("HARNESS-INCOMPLETE: replaying recorded set orders does not reproduce the real interpreter's text (un-owned "
                           "nondeterminism): " + "; ".join(incomplete[:3]))
    cov["replay_divergences"] = incomplete[:5]
    return {"level": LEVEL, "coverage": cov, "violations": list(uniq.values()),
            "assumptions": ["all iteration orders of sets are a superset of what hash seeds can produce; dict and networkx orders are functions of "
                            "insertion order and therefore of the owned choices",
                            "F1 (see C06) is not re-reported"]}


def first_line_diff(a, b):
    if a is None or b is None:
        return "one text missing"
    la, lb = a.split("\n"), b.split("\n")
    for i, (x, y) in enumerate(zip(la, lb)):
        if x != y:
            return "line %d:\n  A: %s\n  B: %s" % (i + 1, x, y)
    return "lengths differ: %d vs %d lines" % (len(la), len(lb))


def replay(ctx, case):
    e = case["entry"]
    del _SLICE[:]
    _SLICE.append(e)
    tag = e["tag"].split("|")[0]
    if case.get("other_prefix") is not None:
        _, _, r1 = run_item((0, case["prefix"]))
        _, _, r2 = run_item((0, case["other_prefix"]))
        if bool(r1["rejected"]) != bool(r2["rejected"]):
            return [{"sig": {"kind": "order-dependent-failure", "tag": tag}, "msg": "%r / %r" % (r1["rejected"], r2["rejected"]), "case": case}]
        return []
    if case.get("prefix") is not None:
        _, _, r = run_item((0, case["prefix"]))
        text = r["text"]
    else:
        text = case.get("text")
    if text is None:
        return []
    kind, msg, _ = judge_text(e, text)
    if kind:
        return [{"sig": {"kind": kind, "tag": tag}, "msg": msg, "case": case}]
    return []
