"""C19 -- an omitted mapping means the canonical default.

E-SPEC (compile only): every template (operand permutations, take() first/last, affine accesses) x partitionings without
flatten x every subset of {rank-order, loop-order, partitioning} written explicitly vs omitted.  The explicit default is
computed from the structured specification by the rule of the statement (declared rank order; output ranks as
written, then remaining ranks by first appearance in the text, each partitioned rank replaced in place by its levels
outermost to innermost; no partitioning).  Oracle: identical emitted text.
"""
import copy
import itertools

from mc.core.par import pmap
from mc.spec import build as B
from mc.spec import universe as U
from mc.spec.build import E, T, V, times, take

LEVEL = "exploration"


def first_appearance(expr):
    """index variables in the order they appear in the Einsum text (output first)"""
    vs = []
    for v in expr["out"][1]:
        if v not in vs:
            vs.append(v)
    for _, fs, _ in expr["terms"]:
        for f in fs:
            if f[0] == "t":
                for a in f[2]:
                    for v in a:
                        if v not in vs:
                            vs.append(v)
    return vs


def default_loop_order(expr, part):
    out = []
    for v in first_appearance(expr):
        r = v.upper()
        if part and r in part:
            n = len(part[r])
            out.extend("%s%d" % (r, i) for i in range(n, -1, -1))
        else:
            out.append(r)
    return out


def extra_templates():
    ts = []
    # affine accesses: coefficient indices before/after plain ones
    ts.append(("G1", {"A": ["W", "S", "N"], "Z": ["N"]}, E("Z", ["n"], times(T("A", {"q": 2}, "s", "n")))))
    ts.append(("G2", {"A": ["S", "W", "N"], "Z": ["N"]}, E("Z", ["n"], times(T("A", "s", {"q": 2}, "n")))))
    ts.append(("G3", {"I": ["W"], "F": ["S"], "O": ["Q"]}, E("O", ["q"], times(T("I", {"q": 1, "s": 1}), T("F", "s")))))
    ts.append(("G4", {"I": ["W"], "F": ["S"], "O": ["Q"]}, E("O", ["q"], times(T("F", "s"), T("I", {"s": 1, "q": 2})))))
    ts.append(("G5", {"I": ["H", "W"], "F": ["R", "S"], "O": ["P", "Q"]},
               E("O", ["p", "q"], times(T("I", {"p": 1, "r": 1}, {"q": 1, "s": 1}), T("F", "r", "s")))))
    # one access mixing plain and coefficient index terms (order of first appearance inside the access)
    ts.append(("G9", {"I": ["W"], "F": ["R", "S"], "O": ["Q"]}, E("O", ["q"], times(T("I", {"q": 1, "r": 2, "s": 1}), T("F", "r", "s")))))
    ts.append(("G10", {"I": ["W"], "F": ["R", "S"], "O": ["P", "Q"]},
               E("O", ["p", "q"], times(T("I", {"p": 3, "q": 1, "r": 3, "s": 1}), T("F", "r", "s")))))
    ts.append(("G11", {"I": ["W"], "F": ["S", "R"], "O": ["Q"]}, E("O", ["q"], times(T("F", "s", "r"), T("I", {"r": 2, "q": 1, "s": 1})))))
    # contracted ranks appearing in a different order in different terms
    ts.append(("G6", None, E("Z", ["m"], times(T("A", "k", "j", "m")), times(T("B", "j", "k", "m")))))
    ts.append(("G7", None, E("Z", ["m"], times(T("A", "j", "m"), T("B", "k", "m")), take(T("C", "k", "m"), T("D", "j", "m"), sel=0))))
    ts.append(("G8", None, E("Z", ["m"], take(T("C", "k", "m"), T("D", "j", "m"), sel=0), times(T("A", "j", "m"), T("B", "k", "m")))))
    return ts


def configs(ctx):
    work = []
    base = []
    for tag, expr in U.templates(ctx.tier):
        perms = U.operand_perms(expr)
        cap = 6 if ctx.quick else 24
        if len(perms) > cap:
            perms = perms[:: -(-len(perms) // cap)]
        for pi, e in enumerate(perms):
            base.append(("%s/p%d" % (tag, pi), U.decl_for([e]), e))
    for tag, decl, expr in extra_templates():
        base.append((tag, decl or U.decl_for([expr]), expr))
    for tag, decl, expr in base:
        ranks = [v.upper() for v in first_appearance(expr)]
        affine = any(len(a) > 1 or list(a.values()) != [1] for _, fs, _ in expr["terms"] for f in fs if f[0] == "t" for a in f[2])
        parts = [None]
        if not affine:
            for r in ranks:
                parts.append({r: ["uniform_shape(2)"]})
                parts.append({r: ["uniform_shape(4)", "uniform_shape(2)"]})
                holders = [t for t in B.read_tensors(expr) if r in decl[t]]
                for L in holders[:2]:
                    parts.append({r: ["uniform_occupancy(%s.2)" % L]})
            if len(ranks) >= 2 and not ctx.quick:
                parts.append({ranks[0]: ["uniform_shape(2)"], ranks[-1]: ["nway_shape(2)", "uniform_shape(1)"]})
                parts.append({ranks[-1]: ["uniform_shape(2)"], ranks[0]: ["uniform_shape(3)"]})
                for r in ranks:
                    parts.append({r: ["uniform_shape(8)", "uniform_shape(4)", "uniform_shape(2)"]})
                    parts.append({r: ["nway_shape(3)"]})
        for part in parts:
            work.append({"tag": tag, "decl": decl, "expr": expr, "part": part})
    return work


def text_of(decl, expr, mapping):
    spec = {"decl": decl, "exprs": [expr], "mapping": mapping}
    return str(B.compile_spec(spec))


def check(w):
    decl, expr, part = w["decl"], w["expr"], w["part"]
    out = {"status": "ok", "pairs": 0, "texts": set()}
    omitted = {}
    if part:
        omitted["partitioning"] = {expr["out"][0]: copy.deepcopy(part)}
    try:
        ref = text_of(decl, expr, copy.deepcopy(omitted) if omitted else None)
    except Exception as e:
        out["status"] = "rejected"
        out["reject"] = "%s: %s" % (type(e).__name__, str(e)[:60])
        return out
    out["texts"].add(hash(ref))
    o = expr["out"][0]
    explicit = {
        "rank-order": {t: list(r) for t, r in decl.items()},
        "loop-order": {o: default_loop_order(expr, part)},
    }
    variants = []
    keys = ["rank-order", "loop-order"] + ([] if part else ["partitioning"])
    for n in range(1, len(keys) + 1):
        for sub in itertools.combinations(keys, n):
            m = copy.deepcopy(omitted)
            for k in sub:
                if k == "partitioning":
                    m["partitioning"] = {}
                else:
                    m[k] = copy.deepcopy(explicit[k])
            variants.append((sub, m))
            if "partitioning" in sub:
                m2 = copy.deepcopy(m)
                m2["partitioning"] = {o: {}}
                variants.append((sub + ("partitioning:{Z:{}}",), m2))
    if not part:
        variants.append((("mapping:{}",), {}))
    for sub, m in variants:
        out["pairs"] += 1
        try:
            txt = text_of(decl, expr, m)
        except Exception as e:
            out["status"] = "fail"
            out["fail"] = {"explicit": list(sub), "mapping": m, "why": "explicit default rejected: %s: %s" % (type(e).__name__, e)}
            return out
        if txt != ref:
            out["status"] = "fail"
            out["fail"] = {"explicit": list(sub), "mapping": m, "why": "emitted text differs", "omitted_text": ref, "explicit_text": txt}
            return out
    out["texts"] = len(out["texts"])
    return out


def flatten_groups(ctx):
    """Flattening: the statement does not define the default, but 'omitted == some explicit default' still implies that the
    omitted form compiles whenever an explicit loop order over the same loop ranks does, and that its text equals the text
    of one of those explicit orders.  Groups = (Einsum, partitioning with flatten) from the C03 universe."""
    from mc.props import c03
    from mc.spec import corpus
    groups = {}
    for w in c03.configs(corpus._Q if ctx.quick else corpus._T):
        part = (w["spec"]["mapping"].get("partitioning") or {}).get("Z") or {}
        if not any("flatten" in " ".join(v) for v in part.values()) or "rank-order" in w["spec"]["mapping"]:
            continue
        k = B.canon([[B.render_expr(e) for e in w["spec"]["exprs"]], part, w.get("sizes")])
        g = groups.setdefault(k, {"decl": w["spec"]["decl"], "expr": w["spec"]["exprs"][0], "part": part, "orders": [], "tag": w["tag"]})
        lo = (w["spec"]["mapping"].get("loop-order") or {}).get("Z")
        if lo and lo not in g["orders"]:
            g["orders"].append(lo)
    gs = [g for g in groups.values() if g["orders"]]
    if ctx.quick:
        gs = [g for g in gs if len(g["orders"][0]) <= 4]
        gs = gs[:: max(1, len(gs) // 60)]
    return gs


def check_flatten(g):
    o = g["expr"]["out"][0]
    texts = {}
    ranks = sorted(g["orders"][0])
    cands = [list(p) for p in itertools.permutations(ranks)] if len(ranks) <= 5 else g["orders"]
    for lo in cands:
        try:
            texts[text_of(g["decl"], g["expr"], {"partitioning": {o: g["part"]}, "loop-order": {o: lo}})] = lo
        except Exception:
            pass
    try:
        omitted = text_of(g["decl"], g["expr"], {"partitioning": {o: g["part"]}})
    except Exception as e:
        if texts:
            return {"status": "fail", "why": "with the loop order omitted the specification is rejected (%s: %s) although %d explicit loop orders "
                    "over the same loop ranks compile, e.g. %r" % (type(e).__name__, e, len(texts), next(iter(texts.values())))}
        return {"status": "rejected"}
    if texts and omitted not in texts:
        return {"status": "fail", "why": "the text emitted with the loop order omitted equals the text of none of the %d explicit "
                "loop orders (all permutations of the loop ranks)\n--- omitted ---\n%s" % (len(texts), omitted)}
    return {"status": "ok", "n": len(texts)}


def cascade_configs(ctx):
    """Cascades with a *mixed* mapping: the target Einsum's loop order is omitted vs written as its default while the other
    Einsums carry every explicit loop order (all permutations), a partitioning, or nothing."""
    casc = [
        ("cA", {"A": ["K", "M"], "B": ["K", "N"], "C": ["M", "N"], "T": ["M", "N"], "Z": ["M", "N"]},
         [E("T", ["m", "n"], times(T("A", "k", "m"), T("B", "k", "n"))), E("Z", ["m", "n"], times(T("T", "m", "n"), T("C", "m", "n")))]),
        ("cB", {"A": ["K", "M"], "B": ["K", "N"], "C": ["M", "N"], "T": ["M", "N"], "Z": ["N"]},
         [E("T", ["m", "n"], times(T("A", "k", "m"), T("B", "k", "n"))), E("Z", ["n"], times(T("T", "m", "n"), T("C", "m", "n")))]),
        ("cC", {"A": ["K", "M"], "B": ["K", "N"], "T": ["M"], "U": ["M", "N"], "Z": ["N", "M"]},
         [E("T", ["m"], times(T("A", "k", "m"))), E("U", ["m", "n"], times(T("T", "m"), T("B", "k", "n"))),
          E("Z", ["n", "m"], times(T("U", "m", "n")))]),
    ]
    work = []
    for tag, decl, exprs in casc:
        names = [e["out"][0] for e in exprs]
        menus = []
        for e in exprs:
            dflt = default_loop_order(e, None)
            menu = [{}] + [{"loop-order": list(p)} for p in itertools.permutations(dflt)]
            r = dflt[0]
            menu.append({"partitioning": {r: ["uniform_shape(2)"]}})
            menu.append({"partitioning": {r: ["uniform_shape(2)"]}, "loop-order": default_loop_order(e, {r: ["uniform_shape(2)"]})})
            menus.append(menu)
        for ti, te in enumerate(exprs):
            others = [menus[j] if j != ti else [None] for j in range(len(exprs))]
            for ctxt in itertools.product(*others):
                for tpart in (None, {default_loop_order(te, None)[-1]: ["uniform_shape(2)"]}):
                    work.append({"tag": tag, "decl": decl, "exprs": exprs, "target": ti, "context": list(ctxt), "tpart": tpart})
    return work


def cascade_mapping(w, explicit):
    m = {}
    for j, e in enumerate(w["exprs"]):
        o = e["out"][0]
        if j == w["target"]:
            if w["tpart"]:
                m.setdefault("partitioning", {})[o] = copy.deepcopy(w["tpart"])
            if explicit:
                m.setdefault("loop-order", {})[o] = default_loop_order(e, w["tpart"])
        else:
            for k, v in (w["context"][j] or {}).items():
                m.setdefault(k, {})[o] = copy.deepcopy(v)
    return m


def check_cascade(w):
    w["exprs"] = [dict(e, out=tuple(e["out"])) for e in w["exprs"]]
    texts = []
    for explicit in (False, True):
        try:
            texts.append(str(B.compile_spec({"decl": w["decl"], "exprs": w["exprs"], "mapping": cascade_mapping(w, explicit)})))
        except Exception as e:
            texts.append("REJECTED %s: %s" % (type(e).__name__, e))
    if texts[0] == texts[1]:
        return {"status": "rejected" if texts[0].startswith("REJECTED") else "ok"}
    return {"status": "fail", "why": "Einsum %d of the cascade with its loop order omitted vs written as the default %r (mapping of the other "
            "Einsums: %r)\n--- omitted ---\n%s\n--- explicit ---\n%s" % (w["target"], default_loop_order(w["exprs"][w["target"]], w["tpart"]),
                                                                        w["context"], texts[0], texts[1])}


def run(ctx):
    work = configs(ctx)
    res = pmap(check, work, jobs=ctx.jobs, seed=ctx.seed, progress="C19")
    groups = flatten_groups(ctx)
    fres = pmap(check_flatten, groups, jobs=ctx.jobs, seed=ctx.seed)
    viols, pairs, rejected, ntext = [], 0, {}, 0
    for g, r in zip(groups, fres):
        pairs += r.get("n", 0)
        if r["status"] == "fail":
            viols.append({"sig": {"kind": "flatten-default", "einsum": B.render_expr(g["expr"]), "explicit": ["loop-order"], "partitioned": True},
                          "msg": "%s partitioning=%s\n%s" % (B.render_expr(g["expr"]), g["part"], r["why"]), "case": {"g": g}})
    cwork = cascade_configs(ctx)
    cres = pmap(check_cascade, cwork, jobs=ctx.jobs, seed=ctx.seed)
    for w, r in zip(cwork, cres):
        pairs += 1
        if r["status"] == "rejected":
            rejected["cascade context rejected in both forms"] = rejected.get("cascade context rejected in both forms", 0) + 1
        elif r["status"] == "fail":
            viols.append({"sig": {"kind": "cascade-default", "einsum": "%s/%d" % (w["tag"], w["target"]), "explicit": ["loop-order"], "partitioned": bool(w["tpart"])},
                          "msg": r["why"], "case": {"c": w}})
    for w, r in zip(work, res):
        pairs += r["pairs"]
        if r["status"] == "rejected":
            rejected[r["reject"]] = rejected.get(r["reject"], 0) + 1
            continue
        ntext += 1
        if r["status"] == "fail":
            f = r["fail"]
            viols.append({"sig": {"kind": "default-differs", "einsum": B.render_expr(w["expr"]), "explicit": [x for x in f["explicit"] if ":" not in x],
                                  "partitioned": bool(w["part"])},
                          "msg": "%s  partitioning=%s\nwritten explicitly: %s -> %s\n%s\n--- omitted ---\n%s\n--- explicit ---\n%s"
                                 % (B.render_expr(w["expr"]), w["part"], f["explicit"], f["mapping"], f["why"], f.get("omitted_text"), f.get("explicit_text")),
                          "case": {"w": w}})
    uniq = {}
    for v in viols:
        uniq.setdefault((v["sig"]["einsum"], tuple(v["sig"]["explicit"]), v["sig"]["partitioned"]), v)
    cov = {"evaluations": pairs, "distinct_nontrivial": ntext, "configurations": len(work), "flatten_groups": len(groups), "cascade_pairs": len(cwork), "compile_rejections": rejected,
           "rule": "templates (operand permutations, affine accesses, terms listing contracted ranks in different orders) x partitionings "
                   "without flatten x every subset of {rank-order, loop-order, partitioning} explicit vs omitted; evaluations = "
                   "(omitted, explicit) text pairs compared; distinct_nontrivial = accepted (Einsum, partitioning) configurations",
           "exhaustive": True,
           "samples": [{"einsum": B.render_expr(w["expr"]), "partitioning": w["part"], "explicit_default_loop_order": default_loop_order(w["expr"], w["part"])}
                       for w in work[:: max(1, len(work) // 5)]][:6]}
    return {"level": LEVEL, "coverage": cov, "violations": list(uniq.values()), "assumptions": []}


def replay(ctx, case):
    if "c" in case:
        w = case["c"]
        r = check_cascade(w)
        if r["status"] == "fail":
            return [{"sig": {"kind": "cascade-default", "einsum": "%s/%d" % (w["tag"], w["target"]), "explicit": ["loop-order"], "partitioned": bool(w["tpart"])},
                     "msg": r["why"], "case": case}]
        return []
    if "g" in case:
        g = case["g"]
        g["expr"]["out"] = tuple(g["expr"]["out"])
        r = check_flatten(g)
        if r["status"] == "fail":
            return [{"sig": {"kind": "flatten-default", "einsum": B.render_expr(g["expr"]), "explicit": ["loop-order"], "partitioned": True},
                     "msg": r["why"], "case": case}]
        return []
    w = case["w"]
    w["expr"]["out"] = tuple(w["expr"]["out"])
    r = check(w)
    if r["status"] == "fail":
        f = r["fail"]
        return [{"sig": {"kind": "default-differs", "einsum": B.render_expr(w["expr"]), "explicit": [x for x in f["explicit"] if ":" not in x],
                         "partitioned": bool(w["part"])}, "msg": f["why"], "case": case}]
    return []
