"""C10 -- statement order respects every data and control dependence  (E-SCHED)

The controlled topological sort (mc/instr/toposched.py) owns every tie-break of FlowGraph.__sort; the real __hoist and the
real translator run on each order.
  * default tie-break (0 deviations): every specification of the compile-only corpus;
  * a slice of specifications with rich graphs: every linear extension reachable with <= d deviations from the default
    (d = 1 quick, 2 thorough; complete enumeration when the space is small).
Invariants on every resulting order (observed through FlowGraph.get_graph()/get_sorted()): permutation of the graph's
nodes; every edge forward; Loop/EndLoop brackets nested in loop order with Body innermost exactly once; every descendant
of LoopNode(r) that reaches Body lies inside r's bracket.  Cross-oracle independent of the graph's own edges: the
emitted text of that order must be closed (C06 analysis) and -- on the explored slice -- compute the Einsum on all
presence patterns of a small extent vector.
"""
import copy

from mc.analysis import closure
from mc.core import execspec as X
from mc.core.explore import Chooser, explore_many
from mc.core.par import pmap, HarnessError
from mc.instr import toposched
from mc.spec import corpus

LEVEL = "model_checking"


def short_tag(tag):
    return tag.split("|")[0].split("/")[0]


def invariants(fgraph, loop_ranks):
    import networkx as nx
    from teaal.ir.flow_nodes import LoopNode, EndLoopNode, OtherNode
    G = fgraph.get_graph()
    order = fgraph.get_sorted()
    pos = {}
    for i, n in enumerate(order):
        if n in pos:
            return "node %r appears twice in the order" % (n,)
        pos[n] = i
    if set(pos) != set(G.nodes):
        return "order is not a permutation of the graph's nodes: missing %r, extra %r" % (
            [n for n in G.nodes if n not in pos][:3], [n for n in pos if n not in G.nodes][:3])
    for u, v in G.edges:
        if pos[u] >= pos[v]:
            return "dependence %r -> %r points backwards (positions %d, %d)" % (u, v, pos[u], pos[v])
    body = OtherNode("Body")
    if body not in pos:
        return "no Body node"
    prev_open, prev_close = -1, len(order)
    for r in loop_ranks:
        lo, hi = LoopNode(r), EndLoopNode(r)
        if lo not in pos or hi not in pos:
            return "loop bracket of rank %s missing" % r
        if not (prev_open < pos[lo] < pos[hi] < prev_close):
            return "loop bracket of rank %s is not nested inside the enclosing loop" % r
        prev_open, prev_close = pos[lo], pos[hi]
    if loop_ranks and not (prev_open < pos[body] < prev_close):
        return "Body is not inside the innermost loop"
    anc_body = nx.ancestors(G, body) | {body}
    for r in loop_ranks:
        lo, hi = LoopNode(r), EndLoopNode(r)
        for n in nx.descendants(G, lo):
            if n in anc_body and not (pos[lo] < pos[n] < pos[hi]):
                return "%r depends on loop %s and feeds Body but lies outside that loop's bracket" % (n, r)
    return None


def run_one(entry, prefix, execute):
    """compile under the given tie-break prefix; returns (choices, arity, result dict)"""
    toposched.install()
    ch = Chooser(prefix)
    toposched.reset(ch)
    res = {"viol": None, "kind": None, "text_hash": None, "nodes": 0}
    try:
        h, text = corpus.compile_entry(entry)
    except HarnessError:
        raise
    except Exception as e:
        res["rejected"] = "%s: %s" % (type(e).__name__, str(e)[:60])
        toposched.reset(None)
        return ch.choices, ch.arity, res
    ch.finish()
    graphs = list(toposched.captured())
    toposched.reset(None)
    res["text_hash"] = hash(text)
    # loop ranks per Einsum: from the captured graphs themselves
    from teaal.ir.flow_nodes import LoopNode
    for i, fgr in enumerate(graphs):
        order = fgr.get_sorted()
        loops = [n.get_rank() for n in order if isinstance(n, LoopNode)]
        res["nodes"] += len(order)
        why = invariants(fgr, loops)
        if why:
            res["viol"], res["kind"] = "Einsum %d: %s\norder: %r" % (i, why, order), "order-invariant"
            return ch.choices, ch.arity, res
    err, probs = closure.analyse(text, closure.supplied_from_yaml(entry["yaml"]))
    ranks_ = [r for rs in entry["yaml"]["einsum"]["declaration"].values() for r in rs]
    probs = [p for p in probs if not (p.site.startswith("iterRangeShapeRef") and p.name[-1:].isdigit())   # F1, F17: see C06 / C16
             and not closure.is_flattened_name(p.name, ranks_)]
    if err or probs:
        res["viol"] = "emitted text of this order is not closed: %s\n--- emitted program ---\n%s" % (err or probs[:3], text)
        res["kind"] = "not-closed"
        return ch.choices, ch.arity, res
    if execute and entry.get("spec") is not None:
        r = X.sweep(text, entry["spec"], entry["extents"], sizes=entry.get("sizes"), max_fail=1, extra_env=None,
                    standins=entry["mode"] == "metrics")
        res["execs"] = r["n"]
        if r["fails"]:
            mask, kind, msg = r["fails"][0]
            res["viol"] = "program of this order computes a wrong result (%s, pattern mask %d): %s\n--- emitted program ---\n%s" % (kind, mask, msg, text)
            res["kind"] = "wrong-result"
    return ch.choices, ch.arity, res


_SLICE = []


def run_item(item):
    i, prefix = item
    ch, ar, res = run_one(_SLICE[i], prefix, execute=True)
    # a specification rejected under the default tie-break is still explored: the set of legal orders must be accepted or
    # rejected uniformly (an order-dependent failure means a dependence is missing from the graph)
    return ch, ar, res


def default_entry(entry):
    ch, ar, res = run_one(entry, [], execute=False)
    return {"viol": res["viol"], "kind": res["kind"], "rejected": res.get("rejected"), "points": len(ar), "nodes": res["nodes"]}


def slice_entries(ctx):
    """specifications with rich graphs, each with a structured spec for execution"""
    from mc.props import c02, c03, c04, c05, c11
    from mc.spec import build as B
    Q = corpus._Q
    out = []

    def add(tag, w, mode="plain", ext=None):
        e = {"tag": tag, "yaml": B.to_yaml(w["spec"]), "mode": mode, "spec": w["spec"], "extents": ext or small_ext(w),
             "sizes": w.get("sizes")}
        out.append(e)

    def small_ext(w):
        return min(w["extents"], key=lambda e: X.n_cells(w["spec"], e))

    n = ctx.pick(1, 4)
    w2 = [w for w in c02.configs(Q) if w["tag"].startswith(("P1/", "P2/", "S2/")) and not w["tag"].startswith("P7")]
    for w in w2[:: max(1, len(w2) // (12 * n))]:
        add("C02:" + w["tag"], w)
    w3 = [w for w in c03.configs(Q) if not w["tag"].startswith("EW3")]
    for w in w3[:: max(1, len(w3) // (20 * n))]:
        add("C03:" + w["tag"], w)
    w4 = [w for w in c04.configs(Q) if (w["spec"]["mapping"].get("loop-order") or {}).get("O", [""])[-1:] == ["Q0"] and "u(2)" in w["tag"]
          and w["tag"].startswith(("F1d(1,1)", "F1dG"))]
    for w in w4[:: max(1, len(w4) // (4 * n))]:
        # partitioned convolutions: executed results are the business of C04 (known findings); order + closure only
        e = {"tag": "C04:" + w["tag"], "yaml": B.to_yaml(w["spec"]), "mode": "plain", "spec": None, "extents": None}
        out.append(e)
    # metrics mode: one configuration per (base, binding kind) -- buffets lazy/eager, cache, each intersector kind, sequencer,
    # both merger kinds -- plus a slice of the pairs
    w11 = [w for w in c11.configs(Q) if "|" in w["tag"] and w["labels"] and not w["tag"].startswith("mm/occ|mrgx:A")]  # F16: see C06/C11
    seen = set()
    for w in w11:
        kinds = tuple(sorted((l.split(":")[0] + ("/eager" if l.endswith("/eager") else "")) for l in w["labels"]))
        k = (w["tag"].split("|")[0], kinds)
        if len(kinds) == 1 and k not in seen and not w["tag"].startswith("conv"):
            seen.add(k)
            add("C11:" + w["tag"], {"spec": w["spec"], "extents": w["extents"]}, mode="metrics", ext=w["extents"][0])
    pairs = [w for w in w11 if len(w["labels"]) == 2]
    for w in pairs[:: max(1, len(pairs) // (10 * n))]:
        add("C11:" + w["tag"], {"spec": w["spec"], "extents": w["extents"]}, mode="metrics", ext=w["extents"][0])
    for h in c05.histories(["shape2", "occ", "flat", "swz"], 2)[:: (3 if ctx.quick else 1)]:
        spec = c05.build_spec(h)
        out.append({"tag": "C05:" + "+".join(e for e, _ in h), "yaml": B.to_yaml(spec), "mode": "plain", "spec": spec,
                    "extents": dict(c05.EXTENTS)})
    for fname, y in corpus.yaml_files():
        if fname in ("extensor.yaml", "gamma.yaml", "sigma.yaml", "outerspace.yaml", "test_input.yaml"):
            mode = "metrics" if ("architecture" in y and "bindings" in y) else "plain"
            out.append({"tag": "file:" + fname, "yaml": y, "mode": mode, "spec": None, "extents": None})
    return out


def run(ctx):
    es = corpus.entries(ctx)
    if ctx.quick:
        es = [e for i, e in enumerate(es) if i % 3 == 0 or e["tag"].startswith(("CONVB", "file:", "REV", "FLAT3"))]
    else:
        # thorough: a quarter of the (45 times larger) thorough corpus plus every special family
        es = [e for i, e in enumerate(es) if i % 4 == 0 or e["tag"].startswith(("CONVB", "file:", "REV", "FLAT3"))]
    es = [e for e in es if not e["tag"].startswith("C11:mm/occ|mrgx:A")]   # F16, reported by C06 / C11
    dres = pmap(default_entry, es, jobs=ctx.jobs, seed=ctx.seed, progress="C10-default")
    viols = []
    states = transitions = 0
    for e, r in zip(es, dres):
        if r["rejected"]:
            if e.get("must_compile"):
                viols.append({"sig": {"kind": "legal-spec-rejected", "tag": short_tag(e["tag"]), "dev": 0},
                              "msg": "%s: a specification of a class that always compiles is now rejected: %s\n%s" % (e["tag"], r["rejected"], e["yaml"]),
                              "case": {"entry": e, "prefix": []}})
            continue
        states += 1
        transitions += r["nodes"]
        if r["viol"]:
            viols.append({"sig": {"kind": r["kind"], "tag": short_tag(e["tag"]), "dev": 0},
                          "msg": "%s (default tie-break): %s" % (e["tag"], r["viol"]), "case": {"entry": e, "prefix": []}})
    sl = slice_entries(ctx)
    max_dev = ctx.pick(1, 2)
    budget = ctx.pick(70, 500)
    del _SLICE[:]
    _SLICE.extend(sl)
    infos = explore_many(len(sl), lambda items: pmap(run_item, items, jobs=ctx.jobs, seed=ctx.seed, chunk=4), max_dev, budget)
    # a specification on which every explored order *crashes* (an exception other than the ValueError of a stated rule) is
    # explored one deviation deeper: a crash that depends on the order is a missing dependence (the tree of a compilation
    # that aborts early is small)
    deeper = [i for i, inf in enumerate(infos) if inf["executions"] and all(r.get("rejected") and not str(r["rejected"]).startswith("ValueError")
                                                                              for _, r in inf["executions"])]
    if deeper and max_dev < 2:
        sub = [sl[i] for i in deeper]
        del _SLICE[:]
        _SLICE.extend(sub)
        inf2 = explore_many(len(sub), lambda items: pmap(run_item, items, jobs=ctx.jobs, seed=ctx.seed, chunk=4), 2, 500)
        for i, inf in zip(deeper, inf2):
            infos[i] = inf
        del _SLICE[:]
        _SLICE.extend(sl)
    runs = texts = execs = 0
    per_spec = []
    nexh = 0
    for e, inf in zip(sl, infos):
        tset = set()
        nodes = 0
        first = None
        rej_dummy = None
        rej = [(p, r["rejected"]) for p, r in inf["executions"] if r.get("rejected")]
        acc = [p for p, r in inf["executions"] if not r.get("rejected")]
        if rej and acc:
            first = {"prefix": rej[0][0], "kind": "order-dependent-failure",
                     "msg": "the compiler fails under tie-break %r (%s) but succeeds under tie-break %r: a dependence is missing from the graph"
                            % (rej[0][0], rej[0][1], acc[0])}
        for prefix, res in inf["executions"]:
            execs += res.get("execs", 0)
            nodes = max(nodes, res.get("nodes", 0))
            if res["text_hash"] is not None:
                tset.add(res["text_hash"])
            if res["viol"] and first is None:
                first = {"prefix": prefix, "kind": res["kind"], "msg": res["viol"]}
        runs += inf["runs"]
        texts += len(tset)
        nexh += inf["exhaustive"]
        per_spec.append({"tag": e["tag"], "schedules": inf["runs"], "per_deviation_level": inf["levels"],
                         "completed_bound": inf["completed_bound"], "exhaustive": inf["exhaustive"], "distinct_texts": len(tset),
                         "graph_nodes": nodes})
        if first:
            sig = {"kind": first["kind"], "tag": short_tag(e["tag"]), "dev": len([c for c in first["prefix"] if c])}
            if first["kind"] == "order-dependent-failure":
                sig["input"] = e["tag"]
                sig["error"] = str(rej[0][1])[:80]
                del sig["dev"]
            viols.append({"sig": sig,
                          "msg": "%s, tie-break choices %r: %s" % (e["tag"], first["prefix"], first["msg"]),
                          "case": {"entry": e, "prefix": first["prefix"], "other_prefix": acc[0] if first["kind"] == "order-dependent-failure" else None}})
    uniq = {}
    for v in viols:
        uniq.setdefault((v["sig"]["kind"], v["sig"].get("input", v["sig"]["tag"])), v)
    cov = {"states": states + texts, "transitions": transitions + runs, "traces_validated_against_impl": states + runs,
           "default_tiebreak_specifications": states, "explored_specifications": len(sl), "schedules_explored": runs,
           "distinct_texts_from_explored_schedules": texts, "executions_on_reference_model": execs,
           "max_deviations": max_dev, "budget_per_specification": budget, "specifications_enumerated_completely": nexh,
           "exhaustive": False,
           "explanation": "states = distinct (specification, emitted program) pairs reached; transitions = schedule steps (nodes ordered) + schedules; "
                          "every explored schedule is an execution of the real FlowGraph/__hoist/translator under the controlled topological sort",
           "samples": per_spec[:: max(1, len(per_spec) // 6)][:8]}
    return {"level": LEVEL, "coverage": cov, "violations": list(uniq.values()),
            "assumptions": ["the controlled Kahn scheduler reaches every linear extension; answering 0 everywhere reproduces networkx's own order",
                            "F1 (unbound partition-level names in iterRangeShapeRef, see C06) is not re-reported here"]}


def replay(ctx, case):
    e = case["entry"]
    if case.get("other_prefix") is not None:
        _, _, r1 = run_one(e, case["prefix"], execute=False)
        _, _, r2 = run_one(e, case["other_prefix"], execute=False)
        if bool(r1.get("rejected")) != bool(r2.get("rejected")):
            return [{"sig": {"kind": "order-dependent-failure", "tag": short_tag(e["tag"]), "input": e["tag"],
                             "error": str(r1.get("rejected") or r2.get("rejected"))[:80]},
                     "msg": "tie-break %r: %s; tie-break %r: %s" % (case["prefix"], r1.get("rejected") or "compiles", case["other_prefix"], r2.get("rejected") or "compiles"),
                     "case": case}]
        return []
    ch, ar, res = run_one(e, case["prefix"], execute=e.get("spec") is not None)
    if res.get("rejected") and e.get("must_compile"):
        return [{"sig": {"kind": "legal-spec-rejected", "tag": short_tag(e["tag"]), "dev": 0}, "msg": res["rejected"], "case": case}]
    if res["viol"]:
        return [{"sig": {"kind": res["kind"], "tag": short_tag(e["tag"]), "dev": len([c for c in case["prefix"] if c])},
                 "msg": res["viol"], "case": case}]
    return []
