"""C05 -- cascaded Einsums compose and are compiled independently of their predecessors  (E-HIST)

Alphabet: ~15 Einsum events (plain, sum, take, shape/occupancy/flatten partitioned, swizzled output, index math,
spacetime, rank-0, ...), each with its own mapping; an event may read the declared input D or any earlier [M,N] output.
Transition: extend the cascade by one Einsum and compile the whole cascade with the real HiFiber.
Oracles per transition: (1) prefix closure of the emitted text, (2) the suffix equals the Einsum compiled alone (same
declarations and mapping) up to renumbering of temporaries, (3) the whole program computes the chained dense
evaluation with every intermediate under exactly its declared/rank-order name, (4) all shared Tensor objects are
back in their initial state after the compilation.
"""
import itertools
import re

from mc.core.par import pmap
from mc.core import execspec as X
from mc.spec import build as B
from mc.spec.build import E, T, times, take

LEVEL = "model_checking"

BASE_DECL = {"A": ["K", "M"], "B": ["K", "N"], "C": ["M", "N"], "D": ["M", "N"], "I": ["W"], "F": ["S"],
             "DQ": ["Q"], "DI": ["I", "J"], "G": ["I", "J"], "D3": ["K", "M", "N"], "G3": ["K", "M", "N"]}
EXTENTS = {"K": 2, "M": 2, "N": 1, "W": 3, "S": 2, "Q": 2, "P": 1, "I": 2, "J": 1}
EXTENTS2 = {"K": 1, "M": 2, "N": 2, "W": 3, "S": 2, "Q": 2, "P": 1, "I": 2, "J": 2}
DEFAULT_SRC = {"M,N": "D", "Q": "DQ", "I,J": "DI", "K,M,N": "D3"}
MN, QQ, IJ, KMN = ["M", "N"], ["Q"], ["I", "J"], ["K", "M", "N"]


def prod(o):
    return E(o, ["m", "n"], times(T("A", "k", "m"), T("B", "k", "n")))


def ew(o, x):
    return E(o, ["m", "n"], times(T(x, "m", "n"), T("C", "m", "n")))


EVENTS = {
    # name: (needs source, output ranks, expr builder, mapping for the output)
    "prod": (None, ["M", "N"], lambda o, x: prod(o), {}),
    "sum": (MN, ["M", "N"], lambda o, x: E(o, ["m", "n"], times(T(x, "m", "n")), times(T("C", "m", "n"))), {}),
    "take": (MN, ["M", "N"], lambda o, x: E(o, ["m", "n"], take(T(x, "m", "n"), T("C", "m", "n"), sel=1)), {}),
    "copy": (MN, ["M", "N"], lambda o, x: E(o, ["m", "n"], times(T(x, "m", "n"))), {"loop-order": ["N", "M"]}),
    "lo": (None, ["M", "N"], lambda o, x: prod(o), {"loop-order": ["N", "K", "M"]}),
    "shape2": (None, ["M", "N"], lambda o, x: prod(o),
               {"partitioning": {"K": ["uniform_shape(2)", "uniform_shape(1)"], "M": ["uniform_shape(2)"]},
                "loop-order": ["K2", "M1", "K1", "N", "M0", "K0"]}),
    "shapeK2": (None, ["M", "N"], lambda o, x: prod(o), {"partitioning": {"K": ["uniform_shape(2)"]}}),
    "shapeK3": (None, ["M", "N"], lambda o, x: prod(o), {"partitioning": {"K": ["uniform_shape(3)"]}}),
    "shapeout": (MN, ["M", "N"], lambda o, x: ew(o, x),
                 {"partitioning": {"N": ["uniform_shape(2)"]}, "loop-order": ["N1", "M", "N0"]}),
    "occ": (MN, ["M", "N"], lambda o, x: ew(o, x), {"partitioning": {"M": ["uniform_occupancy(%(x)s.1)"]}}),
    "occk": (None, ["M", "N"], lambda o, x: prod(o), {"partitioning": {"K": ["uniform_occupancy(A.2)", "uniform_occupancy(A.1)"]}}),
    "flat": (None, ["M", "N"], lambda o, x: prod(o),
             {"partitioning": {"K": ["uniform_shape(2)"], "(M, K0)": ["flatten()"], "MK0": ["uniform_occupancy(A.2)"]},
              "loop-order": ["K1", "MK01", "N", "MK00"]}),
    "flat2": (MN, ["M", "N"], lambda o, x: ew(o, x), {"partitioning": {"(M, N)": ["flatten()"]}, "loop-order": ["MN"]}),
    "swz": (MN, ["M", "N"], lambda o, x: ew(o, x), {"rank-order": ["N", "M"]}),
    "conv": (None, ["Q"], lambda o, x: E(o, ["q"], times(T("I", {"q": 1, "s": 1}), T("F", "s"))), {"loop-order": ["S", "Q"]}),
    "st": (None, ["M", "N"], lambda o, x: prod(o),
           {"loop-order": ["M", "K", "N"], "spacetime": {"space": ["N"], "time": ["M.coord", "K"]}}),
    "rank0": (MN, [], lambda o, x: E(o, [], times(T(x, "m", "n"), T("C", "m", "n"))), {}),
    # a second index-math Einsum relating the same ranks differently, and one chained on a [Q] tensor
    "conv2": (None, ["Q"], lambda o, x: E(o, ["q"], times(T("I", {"q": 2, "s": 1}), T("F", "s"))), {}),
    # two-level partitioned convolution: its eager-input statement must be hoisted in whichever position the Einsum is compiled
    "convb": (None, ["Q"], lambda o, x: E(o, ["q"], times(T("I", {"q": 1, "s": 1}), T("F", "s"))),
              {"partitioning": {"Q": ["uniform_shape(4)", "uniform_shape(2)"], "W": ["follow(Q)"]}, "loop-order": ["Q2", "Q1", "W0", "Q0"]}),
    "convc": (QQ, ["P"], lambda o, x: E(o, ["p"], times(T(x, {"p": 1, "s": 1}), T("F", "s"))), {}),
    # outputs flattened over three ranks / flattened from a layout that needs a swizzle first / with two partitioning groups
    "flat3": (KMN, ["K", "M", "N"], lambda o, x: E(o, ["k", "m", "n"], times(T(x, "k", "m", "n"), T("G3", "k", "m", "n"))),
              {"partitioning": {"(K, M, N)": ["flatten()"], "KMN": ["uniform_occupancy(G3.2)"]}, "loop-order": ["KMN1", "KMN0"]}),
    "flat3b": (KMN, ["K", "M", "N"], lambda o, x: E(o, ["k", "m", "n"], times(T(x, "k", "m", "n"), T("G3", "k", "m", "n"))),
               {"partitioning": {"(M, N)": ["flatten()"]}, "loop-order": ["K", "MN"]}),
    "copy3": (KMN, ["K", "M", "N"], lambda o, x: E(o, ["k", "m", "n"], times(T(x, "k", "m", "n"))), {}),
    "flat2swz": (MN, ["M", "N"], lambda o, x: ew(o, x), {"partitioning": {"(M, N)": ["flatten()"]}, "loop-order": ["MN"], "rank-order": ["N", "M"]}),
    "flat3swz": (KMN, ["K", "M", "N"], lambda o, x: E(o, ["k", "m", "n"], times(T(x, "k", "m", "n"), T("G3", "k", "m", "n"))),
                 {"partitioning": {"(K, N)": ["flatten()"]}, "loop-order": ["M", "KN"], "rank-order": ["K", "M", "N"]}),
    # rank names that collide with the compiler's own suffix conventions
    "ishape": (IJ, ["I", "J"], lambda o, x: E(o, ["i", "j"], times(T(x, "i", "j"), T("G", "i", "j"))),
               {"partitioning": {"I": ["uniform_shape(2)"]}}),
    "iocc": (IJ, ["I", "J"], lambda o, x: E(o, ["i", "j"], times(T(x, "i", "j"), T("G", "i", "j"))),
             {"partitioning": {"I": ["uniform_occupancy(G.1)"]}}),
}
QUICK_EVENTS = ["prod", "sum", "take", "copy", "shape2", "shapeK2", "shapeK3", "shapeout", "occ", "flat", "flat2", "swz", "conv", "conv2", "convb", "convc", "ishape", "st", "rank0"]
# quick: the three-rank / swizzled-flatten producers are crossed with each other and with their consumers only
QUICK_EVENTS3 = ["flat3", "flat3b", "copy3", "flat3swz", "flat2swz", "copy", "flat2"]


def out_name(i, ranks):
    return {"M,N": "T", "Q": "U", "": "S", "P": "V", "I,J": "R", "K,M,N": "Y"}[",".join(ranks)] + str(i)


def histories(events, depth):
    """all sequences of (event, source) of length 1..depth; the source is the declared default input of the required shape or an earlier output of that shape"""
    def rec(prefix, outs):
        if prefix:
            yield list(prefix)
        if len(prefix) == depth:
            return
        for ev in events:
            need, ranks, _, _ = EVENTS[ev]
            srcs = ([DEFAULT_SRC[",".join(need)]] + [o for o, r in outs if r == need]) if need else [None]
            for s in srcs:
                o = out_name(len(prefix), ranks)
                yield from rec(prefix + [(ev, s)], outs + [(o, ranks)])
    return list(rec([], []))


def build_spec(hist, only=None):
    """spec of the cascade; only=i -> the i-th Einsum alone with the same declarations and its own mapping"""
    decl = dict(BASE_DECL)
    exprs, mapping = [], {}
    for i, (ev, src) in enumerate(hist):
        need, ranks, mk, mp = EVENTS[ev]
        o = out_name(i, ranks)
        decl[o] = list(ranks)
        exprs.append(mk(o, src))
        for sec, val in mp.items():
            if sec == "rank-order":
                mapping.setdefault("rank-order", {})[o] = list(val)
            elif only is None or only == i:
                if sec == "partitioning":
                    val = {k: [p % {"x": src} for p in v] for k, v in val.items()}
                elif sec == "spacetime":
                    val = {k: list(v) for k, v in val.items()}
                else:
                    val = list(val)
                mapping.setdefault(sec, {})[o] = val
    if only is not None:
        exprs = [exprs[only]]
    return {"decl": decl, "exprs": exprs, "mapping": mapping}


def renumber(text):
    order = {}

    def sub(m):
        return order.setdefault(m.group(0), "tmp%d" % len(order))
    return re.sub(r"\btmp\d+\b", sub, text)


def noop(*a, **k):
    return None


class Canvas:
    def addActivity(self, *a, **k):
        return None


CANVAS_ENV = {"createCanvas": lambda *a, **k: Canvas(), "displayCanvas": noop}


def fresh_tensor_state(program):
    from teaal.ir.tensor import Tensor
    bad = []
    for name, t in program.tensors.items():
        f = Tensor(name, list(t.get_init_ranks()))
        if vars(t) != vars(f):
            bad.append("%s: %r != fresh %r" % (name, vars(t), vars(f)))
    return bad


def check_history(hist):
    hist = [tuple(h) for h in hist]
    out = {"viol": None, "kind": None, "n": 0, "state": None}
    spec = build_spec(hist)
    try:
        h = B.compile_spec(spec)
        text = str(h)
    except Exception as e:
        out["viol"], out["kind"] = "cascade does not compile: %s: %s" % (type(e).__name__, e), "compile-exception"
        return out
    # (4) shared state back to initial
    bad = fresh_tensor_state(h.program)
    if bad:
        out["viol"], out["kind"] = "Tensor state not reset after compilation: " + "; ".join(bad), "state-leak"
        return out
    out["state"] = (len(hist), h.trans_utils.count)
    # (1) prefix closure, (2) independence of the last Einsum
    if len(hist) > 1:
        try:
            ptext = str(B.compile_spec(build_spec(hist[:-1])))
        except Exception as e:
            out["viol"], out["kind"] = "prefix does not compile: %s" % e, "compile-exception"
            return out
        if not text.startswith(ptext + "\n"):
            out["viol"], out["kind"] = "text of the cascade does not start with the text of its prefix", "prefix-closure"
            out["text"] = text
            return out
        suffix = text[len(ptext) + 1:]
    else:
        suffix = text
    try:
        alone = str(B.compile_spec(build_spec(hist, only=len(hist) - 1)))
    except Exception as e:
        out["viol"], out["kind"] = "Einsum compiled alone fails: %s: %s" % (type(e).__name__, e), "alone-exception"
        return out
    if renumber(suffix) != renumber(alone):
        out["viol"] = ("code emitted for Einsum %d differs from the stand-alone compilation\n--- in cascade ---\n%s\n--- alone ---\n%s"
                       % (len(hist) - 1, suffix, alone))
        out["kind"] = "not-independent"
        return out
    # (3) semantics of the whole program
    for ext in (EXTENTS, EXTENTS2):
        ext = dict(ext)
        r = X.sweep(text, spec, ext, extra_env=CANVAS_ENV, max_fail=1)
        out["n"] += r["n"]
        if r["fails"]:
            mask, kind, msg = r["fails"][0]
            out["viol"] = "%s (extents %s, pattern mask %d)\n%s\n--- emitted program ---\n%s" % (kind, ext, mask, msg, text)
            out["kind"] = "semantics:" + kind
            return out
    return out


def sig_of(hist, kind):
    return {"kind": kind, "history": [[e, s] for e, s in hist]}


def run(ctx):
    events = QUICK_EVENTS if ctx.quick else list(EVENTS)
    depth = 2
    hs = histories(events, depth)
    if ctx.quick:
        seen = {str(h) for h in hs}
        hs += [h for h in histories(QUICK_EVENTS3, depth) if str(h) not in seen]
        events = events + [e for e in QUICK_EVENTS3 if e not in events]
    if not ctx.quick:
        # depth 3 over the events that carry shared state across Einsums
        core = ["prod", "sum", "shapeout", "occ", "flat2", "swz", "rank0", "shape2"]
        seen = {str(h) for h in hs}
        for h in histories(core, 3):
            if str(h) not in seen:
                hs.append(h)
    res = pmap(check_history, hs, jobs=ctx.jobs, seed=ctx.seed, progress="C05")
    viols, nexec, states = [], 0, set()
    for h, r in zip(hs, res):
        nexec += r["n"]
        states.add(str(h[:-1]))
        states.add(str(h))
        if r["viol"]:
            viols.append({"sig": sig_of(h, r["kind"]), "msg": "history %r\n%s" % (h, r["viol"]), "case": {"history": h}})
    viols.sort(key=lambda v: len(v["case"]["history"]))
    minimal = []
    for v in viols:
        h = v["case"]["history"]
        if not any(m["sig"]["kind"] == v["sig"]["kind"] and m["case"]["history"] == h[:len(m["case"]["history"])] for m in minimal):
            minimal.append(v)
    cov = {
        "states": len(states), "transitions": len(hs), "traces_validated_against_impl": len(hs),
        "executions_on_reference_model": nexec, "events": events, "depth": depth if ctx.quick else 3,
        "exhaustive": True,
        "samples": [{"history": hs[i], "einsums": [B.render_expr(e) for e in build_spec(hs[i])["exprs"]]}
                    for i in (0, len(hs) // 3, len(hs) - 1)],
        "explanation": "a state is the cascade prefix compiled so far (the shared Program/Tensor/TransUtils objects after it); "
                       "every transition compiles the extended cascade with the real HiFiber; all histories up to the depth are enumerated",
    }
    return {"level": LEVEL, "coverage": cov, "violations": minimal,
            "assumptions": ["reference HiFiber model", "events are Einsums the compiler accepts on their own"]}


def replay(ctx, case):
    h = [tuple(x) for x in case["history"]]
    r = check_history(h)
    if r["viol"]:
        return [{"sig": sig_of(h, r["kind"]), "msg": r["viol"], "case": case}]
    return []
