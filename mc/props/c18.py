"""C18 -- the stated mapping-legality rules are enforced for every instance.

E-SPEC: for each rule of the statement, EVERY injection site in every base specification of a legal base set.
Oracle: Einsum/Mapping/Architecture/Bindings/Format parsing + HiFiber(...) raises ValueError and returns no text.
The base specifications themselves must compile (vacuity guard).
"""
import copy
import itertools

from mc.core.par import pmap

LEVEL = "exploration"

MM = {"einsum": {"declaration": {"A": ["K", "M"], "B": ["K", "N"], "Z": ["M", "N"]},
                 "expressions": ["Z[m, n] = A[k, m] * B[k, n]"]}, "mapping": {}}


def with_map(base, **sections):
    y = copy.deepcopy(base)
    y["mapping"] = y.get("mapping") or {}
    for k, v in sections.items():
        y["mapping"][k.replace("_", "-")] = v
    return y


def bases():
    b = {}
    b["mm"] = copy.deepcopy(MM)
    b["mm3"] = {"einsum": {"declaration": {"A": ["K", "M"], "B": ["K", "M"], "C": ["K"], "Z": ["M"]},
                           "expressions": ["Z[m] = A[k, m] * B[k, m] * C[k]"]}, "mapping": {}}
    b["sum"] = {"einsum": {"declaration": {"A": ["K", "M"], "B": ["K", "M"], "C": ["K", "M"], "D": ["M"], "G": ["J", "K", "M"], "Z": ["M"]},
                           "expressions": ["Z[m] = A[k, m] * B[k, m] + C[k, m]"]}, "mapping": {}}
    b["sum3"] = {"einsum": {"declaration": {"A": ["M"], "B": ["M"], "C": ["M"], "D": ["K", "M"], "S": [], "Z": ["M"]},
                            "expressions": ["Z[m] = A[m] + B[m] + C[m]"]}, "mapping": {}}
    b["take"] = {"einsum": {"declaration": {"A": ["K", "M"], "B": ["K"], "C": ["M"], "Z": ["M"]},
                            "expressions": ["Z[m] = take(A[k, m], B[k], C[m], 1)"]}, "mapping": {}}
    b["conv"] = {"einsum": {"declaration": {"I": ["N", "W"], "F": ["S"], "O": ["N", "Q"]},
                            "expressions": ["O[n, q] = I[n, q + s] * F[s]"]}, "mapping": {}}
    b["mm_s2"] = with_map(MM, partitioning={"Z": {"K": ["uniform_shape(4)", "uniform_shape(2)"]}})
    b["mm_s3"] = with_map(MM, partitioning={"Z": {"K": ["uniform_shape(8)", "uniform_shape(4)", "uniform_shape(2)"], "M": ["nway_shape(2)"]}})
    b["mm_occ"] = with_map(MM, partitioning={"Z": {"K": ["uniform_occupancy(A.4)", "uniform_occupancy(A.2)"], "M": ["uniform_shape(2)"]}})
    b["mm_flat"] = with_map(MM, partitioning={"Z": {"(M, K)": ["flatten()"], "MK": ["uniform_occupancy(A.2)"]}},
                            loop_order={"Z": ["MK1", "N", "MK0"]})
    b["mm_sigma"] = with_map(MM, partitioning={"Z": {"K": ["uniform_shape(4)"], "(M, K0)": ["flatten()"], "MK0": ["uniform_occupancy(A.2)"]}},
                             loop_order={"Z": ["K1", "MK01", "N", "MK00"]})
    b["t3_flat"] = {"einsum": {"declaration": {"A": ["J", "K", "M"], "B": ["J", "K", "N"], "Z": ["M", "N"]},
                               "expressions": ["Z[m, n] = A[j, k, m] * B[j, k, n]"]},
                    "mapping": {"partitioning": {"Z": {"(J, K, M)": ["flatten()"]}}, "loop-order": {"Z": ["JKM", "N"]}}}
    b["cascade_hw"] = {
        "einsum": {"declaration": {"A": ["K", "M"], "B": ["K", "N"], "T": ["M", "N"], "C": ["M", "N"], "Z": ["M", "N"]},
                   "expressions": ["T[m, n] = A[k, m] * B[k, n]", "Z[m, n] = T[m, n] * C[m, n]"]},
        "mapping": {"loop-order": {"T": ["M", "K", "N"], "Z": ["M", "N"]},
                    "spacetime": {"T": {"space": ["N"], "time": ["M", "K"]}, "Z": {"space": ["N"], "time": ["M"]}}},
        "architecture": {"acc": [{"name": "System", "attributes": {"clock_frequency": 1000},
                                  "local": [{"name": "FPMul", "class": "compute", "attributes": {"type": "mul"}}]}]},
        "bindings": {"T": [{"config": "acc", "prefix": "tmp/T"}, {"component": "FPMul", "bindings": [{"op": "mul"}]}],
                     "Z": [{"config": "acc", "prefix": "tmp/Z"}, {"component": "FPMul", "bindings": [{"op": "mul"}]}]},
        "format": {}}
    return b


def compile_yaml(y):
    from teaal.parse import Einsum, Mapping, Architecture, Bindings, Format
    from teaal.trans.hifiber import HiFiber
    y = copy.deepcopy(y)
    if "architecture" in y:
        h = HiFiber(Einsum(copy.deepcopy(y)), Mapping(copy.deepcopy(y)), Architecture(copy.deepcopy(y)), Bindings(copy.deepcopy(y)),
                    Format(copy.deepcopy(y)))
    else:
        h = HiFiber(Einsum(y), Mapping(copy.deepcopy(y)))
    return str(h)


# ------------------------------------------------------------------ injections

def parse_expr(s):
    """light-weight split of an Einsum string into lhs and a list of terms, each a list of factor strings"""
    lhs, rhs = [x.strip() for x in s.split("=", 1)]
    terms = []
    for t in split_top(rhs, "+"):
        t = t.strip()
        if t.startswith("take("):
            inner = t[5:-1]
            parts = [p.strip() for p in split_top(inner, ",")]
            terms.append(("take", parts[:-1], parts[-1]))
        else:
            terms.append(("times", [p.strip() for p in split_top(t, "*")], None))
    return lhs, terms


def split_top(s, sep):
    out, depth, cur = [], 0, ""
    for ch in s:
        if ch in "[(":
            depth += 1
        elif ch in "])":
            depth -= 1
        if ch == sep and depth == 0:
            out.append(cur)
            cur = ""
        else:
            cur += ch
    out.append(cur)
    return out


def render(lhs, terms):
    ts = []
    for kind, fs, sel in terms:
        ts.append(" * ".join(fs) if kind == "times" else "take(%s, %s)" % (", ".join(fs), sel))
    return "%s = %s" % (lhs, " + ".join(ts))


def instances(quick=True):
    B = bases()
    out = []

    def add(rule, base, what, y):
        out.append({"rule": rule, "base": base, "what": what, "yaml": y})

    for bn, b in B.items():
        decl = b["einsum"]["declaration"]
        # R1 duplicate rank in a declaration: every tensor, every pair of positions
        for t, ranks in decl.items():
            for i, j in itertools.permutations(range(len(ranks)), 2):
                y = copy.deepcopy(b)
                y["einsum"]["declaration"][t][j] = ranks[i]
                add("R1-duplicate-rank", bn, "%s: rank %d := rank %d" % (t, j, i), y)
        for ei, es in enumerate(b["einsum"]["expressions"]):
            lhs, terms = parse_expr(es)
            nf = [(ti, fi) for ti, (k, fs, s) in enumerate(terms) for fi in range(len(fs))]
            # R2 undeclared tensor at every factor position and as output
            for ti, fi in nf:
                f = terms[ti][1][fi]
                if "[" not in f:
                    continue
                nt = copy.deepcopy(terms)
                nt[ti][1][fi] = "X9" + f[f.index("["):]
                y = copy.deepcopy(b)
                y["einsum"]["expressions"][ei] = render(lhs, nt)
                add("R2-undeclared-tensor", bn, "Einsum %d term %d factor %d" % (ei, ti, fi), y)
            y = copy.deepcopy(b)
            y["einsum"]["expressions"][ei] = render("X9" + lhs[lhs.index("["):], terms)
            add("R2-undeclared-tensor", bn, "Einsum %d output" % ei, y)
            # R3 repeated tensor: every factor replaced by a copy of every other factor
            for (t1, f1), (t2, f2) in itertools.permutations(nf, 2):
                if "[" not in terms[t1][1][f1] or "[" not in terms[t2][1][f2]:
                    continue
                nt = copy.deepcopy(terms)
                nt[t1][1][f1] = terms[t2][1][f2]
                y = copy.deepcopy(b)
                y["einsum"]["expressions"][ei] = render(lhs, nt)
                add("R3-repeated-tensor", bn, "Einsum %d: (%d,%d) := (%d,%d)" % (ei, t1, f1, t2, f2), y)
    # R4 terms ranging over different rank sets
    b = B["sum"]
    for repl in ("D[m]", "G[j, k, m]"):
        for ti in (0, 1):
            lhs, terms = parse_expr(b["einsum"]["expressions"][0])
            nt = copy.deepcopy(terms)
            nt[ti] = ("times", [repl], None)
            y = copy.deepcopy(b)
            y["einsum"]["expressions"][0] = render(lhs, nt)
            add("R4-term-rank-sets", "sum", "term %d := %s" % (ti, repl), y)
    b = B["sum3"]
    for repl in ("D[k, m]", "S[]"):
        for ti in (0, 1, 2):
            lhs, terms = parse_expr(b["einsum"]["expressions"][0])
            nt = copy.deepcopy(terms)
            nt[ti] = ("times", [repl], None)
            y = copy.deepcopy(b)
            y["einsum"]["expressions"][0] = render(lhs, nt)
            add("R4-term-rank-sets", "sum3", "term %d := %s" % (ti, repl), y)
    # flatten rules on the matmul / 3-tensor bases
    others = ["uniform_shape(2)", "nway_shape(2)", "uniform_occupancy(A.2)", "flatten()"]
    tuples2 = {"mm": [("M", "K"), ("K", "M"), ("K", "N"), ("N", "K")], "t3_flat": [("J", "K", "M"), ("K", "M"), ("J", "K"), ("M", "J", "K")]}
    if not quick:
        tuples2["mm3"] = [("K", "M"), ("M", "K")]
        tuples2["take"] = [("K", "M"), ("M", "K")]
        tuples2["sum"] = [("K", "M"), ("M", "K")]
        tuples2["t3_flat"] += [("K", "J", "M"), ("M", "K"), ("K", "J"), ("J", "M")]
    for bn, tups in tuples2.items():
        base = copy.deepcopy(B[bn])
        base["mapping"] = {}
        for tup in tups:
            key = "(%s)" % ", ".join(tup)
            flat = "".join(tup)
            # R5 flatten combined with other directives, in each order
            for o in others:
                for stack in (["flatten()", o], [o, "flatten()"]):
                    add("R5-flatten-combined", bn, "%s: %s" % (key, stack), with_map(base, partitioning={"Z": {key: stack}}))
            # R12 non-flatten directive on a tuple
            for o in others[:3]:
                add("R12-nonflatten-on-tuple", bn, "%s: [%s]" % (key, o), with_map(base, partitioning={"Z": {key: [o]}}))
                add("R12-nonflatten-on-tuple", bn, "%s: [%s, %s]" % (key, o, o), with_map(base, partitioning={"Z": {key: [o, o]}}))
            # R8 flatten on ranks that are also partitioned independently
            for r in tup:
                for o in others[:3]:
                    add("R8-flatten-and-independent", bn, "%s flatten, %s: [%s]" % (key, r, o),
                        with_map(base, partitioning={"Z": {key: ["flatten()"], r: [o]}}))
                    add("R8-flatten-and-independent", bn, "%s: [%s], %s flatten" % (r, o, key),
                        with_map(base, partitioning={"Z": {r: [o], key: ["flatten()"]}}))
            # R9 flatten on an already flattened rank
            rest = [r for r in ("M", "N", "K", "J") if r not in tup and r in {x for rs in base["einsum"]["declaration"].values() for x in rs}]
            for r in rest:
                for tup2 in ((flat, r), (r, flat)):
                    key2 = "(%s)" % ", ".join(tup2)
                    add("R9-flatten-flattened", bn, "%s then %s" % (key, key2),
                        with_map(base, partitioning={"Z": {key: ["flatten()"], key2: ["flatten()"]}}))
                # ... on a level of the flattened rank after it was split by occupancy (both listing orders)
                leader = sorted(t for t, rs in base["einsum"]["declaration"].items() if t != "Z" and all(x in rs for x in tup))
                if leader:
                    for stack in (["uniform_occupancy(%s.2)" % leader[0]], ["uniform_occupancy(%s.4)" % leader[0], "uniform_occupancy(%s.2)" % leader[0]]):
                        for lvl in range(len(stack) + 1):
                            for tup2 in (("%s%d" % (flat, lvl), r), (r, "%s%d" % (flat, lvl))):
                                key2 = "(%s)" % ", ".join(tup2)
                                add("R9-flatten-flattened", bn, "%s, %s: %s then %s" % (key, flat, stack, key2),
                                    with_map(base, partitioning={"Z": {key: ["flatten()"], flat: stack, key2: ["flatten()"]}}))
                                add("R9-flatten-flattened", bn, "%s first, %s, %s: %s" % (key2, key, flat, stack),
                                    with_map(base, partitioning={"Z": {key2: ["flatten()"], key: ["flatten()"], flat: stack}}))
            # R11 shape split on the flattened rank
            for o in ("uniform_shape(2)", "nway_shape(2)"):
                add("R11-shape-after-flatten", bn, "%s: [%s]" % (flat, o), with_map(base, partitioning={"Z": {key: ["flatten()"], flat: [o]}}))
                add("R11-shape-after-flatten", bn, "%s: [occ, %s]" % (flat, o),
                    with_map(base, partitioning={"Z": {key: ["flatten()"], flat: ["uniform_occupancy(A.2)", o]}}))
        # R6 flatten of each 1-tuple
        for r in sorted({x for rs in base["einsum"]["declaration"].values() for x in rs}):
            add("R6-flatten-one-rank", bn, "%s: [flatten()]" % r, with_map(base, partitioning={"Z": {r: ["flatten()"]}}))
    # R7 flatten touching an index-math rank
    base = B["conv"]
    for tup in (("N", "W"), ("W", "N"), ("N", "Q"), ("Q", "N")):
        key = "(%s)" % ", ".join(tup)
        add("R7-flatten-index-math", "conv", key, with_map(base, partitioning={"O": {key: ["flatten()"]}}))
    # R10 n-way split after an occupancy split at each stack depth
    occ = "uniform_occupancy(A.4)"
    for stack in ([occ, "nway_shape(2)"], [occ, occ, "nway_shape(2)"], [occ, "nway_shape(2)", occ], ["uniform_shape(8)", occ, "nway_shape(2)"],
                  [occ, "nway_shape(2)", "uniform_shape(1)"]):
        for r in ("K", "M") if quick else ("K", "M", "N"):
            add("R10-nway-after-occupancy", "mm", "%s: %s" % (r, stack), with_map(MM, partitioning={"Z": {r: stack}}))
            if not quick:
                other = "M" if r != "M" else "K"
                add("R10-nway-after-occupancy", "mm", "%s: %s + %s shape" % (r, stack, other),
                    with_map(MM, partitioning={"Z": {r: stack, other: ["uniform_shape(2)"]}}))
    # R13 loop order that projects into the output
    convb = {"einsum": {"declaration": {"I": ["W"], "F": ["S"], "O": ["Q"]}, "expressions": ["O[q] = I[q + s] * F[s]"]}, "mapping": {}}
    for lo in (["W", "S"], ["S", "W"]):
        add("R13-project-into-output", "conv1d", str(lo), with_map(convb, loop_order={"O": lo}))
    for lo in (["N", "W", "S"], ["W", "N", "S"], ["S", "W", "N"], ["N", "S", "W"]):
        add("R13-project-into-output", "conv", str(lo), with_map(B["conv"], loop_order={"O": lo}))
    part = {"O": {"Q": ["uniform_shape(2)"], "W": ["follow(Q)"]}}
    for lo in (["W1", "W0", "S"], ["W1", "Q0", "W0"], ["S", "W1", "W0"], ["W1", "S", "W0"]):
        add("R13-project-into-output", "conv1d-part", str(lo), with_map(convb, partitioning=part, loop_order={"O": lo}))
    # R14 loop order iterating an output-only flattened rank
    for tup in (("M", "N"), ("N", "M")):
        key = "(%s)" % ", ".join(tup)
        flat = "".join(tup)
        for lo in ([flat, "K"], ["K", flat], None):
            y = with_map(MM, partitioning={"Z": {key: ["flatten()"]}})
            if lo:
                y["mapping"]["loop-order"] = {"Z": lo}
            add("R14-output-only-flattened", "mm", "%s loop %s" % (key, lo), y)
    # R15 Einsum without accelerator config in the bindings
    b = B["cascade_hw"]
    for e in ("T", "Z"):
        y = copy.deepcopy(b)
        y["bindings"][e] = [x for x in y["bindings"][e] if "config" not in x]
        add("R15-missing-config", "cascade_hw", "bindings of %s lack the config entry" % e, y)
        y = copy.deepcopy(b)
        del y["bindings"][e]
        add("R15-missing-config", "cascade_hw", "no bindings entry at all for %s" % e, y)
        y = copy.deepcopy(b)
        y["bindings"][e] = []
        add("R15-missing-config", "cascade_hw", "empty bindings list for %s" % e, y)
    return out


def check(inst):
    try:
        text = compile_yaml(inst["yaml"])
    except ValueError as e:
        return {"status": "rejected", "msg": str(e)[:100]}
    except Exception as e:
        return {"status": "wrong-exception", "msg": "%s: %s" % (type(e).__name__, str(e)[:200])}
    return {"status": "compiled", "text": text}


def check_base(item):
    name, y = item
    try:
        compile_yaml(y)
        return None
    except Exception as e:
        return "%s: %s: %s" % (name, type(e).__name__, e)


def run(ctx):
    insts = instances(ctx.quick)
    bs = list(bases().items())
    base_err = [x for x in pmap(check_base, bs, jobs=ctx.jobs) if x]
    res = pmap(check, insts, jobs=ctx.jobs, seed=ctx.seed, progress="C18")
    viols, by_rule, msgs = [], {}, set()
    for be in base_err:
        viols.append({"sig": {"kind": "base-rejected", "base": be.split(":")[0]}, "msg": "legal base specification does not compile: " + be,
                      "case": None, "no_recheck": True})
    for inst, r in zip(insts, res):
        d = by_rule.setdefault(inst["rule"], {"instances": 0, "rejected": 0})
        d["instances"] += 1
        if r["status"] == "rejected":
            d["rejected"] += 1
            msgs.add((inst["rule"], r["msg"][:40]))
            continue
        viols.append({"sig": {"kind": r["status"], "rule": inst["rule"], "base": inst["base"], "what": inst["what"]},
                      "msg": "%s on base %s (%s): %s\nspec: %s" % (inst["rule"], inst["base"], inst["what"],
                                                                    "COMPILED SILENTLY:\n" + r["text"] if r["status"] == "compiled" else r["msg"],
                                                                    {k: inst["yaml"][k] for k in ("einsum", "mapping")}),
                      "case": {"inst": inst}})
    cov = {"evaluations": len(insts), "distinct_nontrivial": len(msgs), "by_rule": by_rule, "legal_bases": len(bs),
           "rule": "for each of the 15 stated rules every injection site in the legal base set; distinct_nontrivial = distinct "
                   "(rule, rejection message) pairs observed", "exhaustive": True,
           "samples": [{"rule": i["rule"], "base": i["base"], "what": i["what"]} for i in insts[:: max(1, len(insts) // 6)]][:7]}
    return {"level": LEVEL, "coverage": cov, "violations": viols, "assumptions": ["the base specifications are legal (checked: they compile)"]}


def replay(ctx, case):
    inst = case["inst"]
    r = check(inst)
    if r["status"] != "rejected":
        return [{"sig": {"kind": r["status"], "rule": inst["rule"], "base": inst["base"], "what": inst["what"]}, "msg": r.get("msg", "compiled"), "case": case}]
    return []
