"""C09 -- the printed text denotes the syntax tree the compiler built.

(a) every program of the compile-only corpus: HiFiber(...).hifiber converted structurally (mc/analysis/tree2ast.py)
    vs ast.parse(str(HiFiber(...)));
(b) the coordinate-expression builder alone: every affine expression with <= 3 symbols, integer coefficients in
    -3..3, rational coefficients p/q (q <= 3) and constant term, through CoordAccess.build_expr; tree vs parse of the
    printed text, and the printed text evaluated at all integer points of [-2,2]^3 against the sympy expression.
"""
import itertools

from mc.analysis import tree2ast
from mc.core.par import pmap
from mc.spec import corpus

LEVEL = "exploration"


def check_entry(e):
    out = {"status": "ok"}
    try:
        h, text = corpus.compile_entry(e)
    except Exception as ex:
        out["status"] = "rejected"
        return out
    out["text_hash"] = hash(text)
    out["nodes"] = text.count("\n") + 1
    d = tree2ast.compare(h.hifiber, text)
    if d:
        out["status"] = "fail"
        out["diff"] = d
        out["text"] = text
    return out


def coef_menu(quick):
    from sympy import Rational, Integer
    ints = [Integer(i) for i in (-3, -2, -1, 1, 2, 3)]
    rats = [Rational(p, q) for q in (2, 3) for p in ((-3, -2, -1, 1, 2, 3) if quick else (-5, -4, -3, -2, -1, 1, 2, 3, 4, 5)) if p % q]
    return ints + rats


def exprs(quick):
    from sympy import Symbol, Integer
    syms = [Symbol("q"), Symbol("s"), Symbol("w0")]
    menu = coef_menu(quick)
    consts = [Integer(0), Integer(1), Integer(-2)]
    out = []
    for n in (1, 2, 3):
        for cs in itertools.product(menu, repeat=n):
            for c0 in consts:
                e = c0
                for c, x in zip(cs, syms):
                    e = e + c * x
                out.append(e)
    return out


def check_expr(sexpr):
    from sympy import Symbol
    from teaal.trans.coord_access import CoordAccess
    try:
        tree = CoordAccess.build_expr(sexpr)
    except Exception as ex:
        return {"status": "fail", "diff": "build_expr raised %s: %s" % (type(ex).__name__, ex), "expr": str(sexpr)}
    text = tree.gen()
    d = tree2ast.compare_expr(tree, text)
    if d:
        return {"status": "fail", "diff": d, "expr": str(sexpr), "text": text}
    code = compile(text, "<expr>", "eval")
    syms = sorted(sexpr.free_symbols, key=str)
    for vals in itertools.product(range(-2, 3), repeat=len(syms)):
        env = {str(s): v for s, v in zip(syms, vals)}
        got = eval(code, {}, dict(env))
        want = sexpr.subs({s: v for s, v in zip(syms, vals)})
        if abs(float(got) - float(want)) > 1e-9:
            return {"status": "fail", "diff": "printed text evaluates to %r at %r, the expression is %s" % (got, env, want),
                    "expr": str(sexpr), "text": text}
    return {"status": "ok", "text": text}


def run(ctx):
    es = corpus.entries(ctx)
    res = pmap(check_entry, es, jobs=ctx.jobs, seed=ctx.seed, progress="C09a")
    viols, texts, nodes = [], set(), 0
    for e, r in zip(es, res):
        if r["status"] == "rejected":
            continue
        texts.add(r["text_hash"])
        nodes += r["nodes"]
        if r["status"] == "fail":
            viols.append({"sig": {"kind": "tree-vs-text", "tag": e["tag"].split("/")[0], "diff": norm_diff(r["diff"])},
                          "msg": "%s (%s mode): %s\nmapping: %s\n--- emitted program ---\n%s"
                                 % (e["tag"], e["mode"], r["diff"], e["yaml"].get("mapping"), r["text"]),
                          "case": {"entry": e}})
    xs = exprs(ctx.quick)
    res2 = pmap(check_expr, xs, jobs=ctx.jobs, seed=ctx.seed, chunk=200, progress="C09b")
    etexts = set()
    for x, r in zip(xs, res2):
        if r["status"] == "fail":
            viols.append({"sig": {"kind": "coord-expr", "expr": r["expr"]},
                          "msg": "coordinate expression %s -> %r: %s" % (r["expr"], r.get("text"), r["diff"]),
                          "case": {"expr": r["expr"]}})
        else:
            etexts.add(r["text"])
    uniq = {}
    for v in viols:
        k = (v["sig"]["kind"], v["sig"].get("tag"), v["sig"].get("diff"), v["sig"].get("expr"))
        uniq.setdefault(k, v)
    cov = {"evaluations": len(es) + len(xs), "distinct_nontrivial": len(texts) + len(etexts),
           "programs_compared": len(texts), "statements_compared": nodes, "coordinate_expressions": len(xs),
           "rule": "(a) compile-only corpus, every mode: structural tree vs ast.parse(text); (b) all affine coordinate expressions "
                   "within the coefficient bound through CoordAccess.build_expr, tree vs text and numeric evaluation on [-2,2]^3; "
                   "distinct_nontrivial = distinct emitted programs + distinct printed coordinate expressions",
           "exhaustive": True, "raw_problem_count": len(viols),
           "samples": [{"tag": e["tag"], "mode": e["mode"], "einsum": e["yaml"]["einsum"]["expressions"]} for e in es[:: max(1, len(es) // 3)]][:3]
           + [{"coordinate_expression": str(x)} for x in xs[:: max(1, len(xs) // 3)]][:3]}
    return {"level": LEVEL, "coverage": cov, "violations": list(uniq.values()),
            "assumptions": ["normal form: chains of one associative operator flattened, parenthesis nodes transparent, negative literals folded"]}


def norm_diff(d):
    import re
    return re.sub(r"\d+", "#", d)[:160]


def replay(ctx, case):
    if "expr" in case:
        from sympy import sympify
        r = check_expr(sympify(case["expr"]))
        if r["status"] == "fail":
            return [{"sig": {"kind": "coord-expr", "expr": r["expr"]}, "msg": r["diff"], "case": case}]
        return []
    e = case["entry"]
    r = check_entry(e)
    if r["status"] == "fail":
        return [{"sig": {"kind": "tree-vs-text", "tag": e["tag"].split("/")[0], "diff": norm_diff(r["diff"])}, "msg": r["diff"], "case": case}]
    return []
