"""C15 -- compilation does not mutate its inputs and is repeatable  (E-HIST)

Explicit-state exploration of histories of compilations inside one interpreter.  Events: compile(spec_j) over ~16
specifications (plain, partitioned, flattened in two ways that produce the same flattened rank name, follow(), lazy and
eager buffets, caches, intersectors, formats without cbits, the accelerator files); within one history every
specification has ONE set of parsed objects (Einsum, Mapping, Architecture, Bindings, Format), created at its first use
and reused by later events.  Every transition calls the real HiFiber(...).
Oracles: (1) deep snapshots of the five parsed objects before == after each compile; (2) compiling again from the same
objects succeeds and yields the same text; (3) the text of every compile of every history equals the text the same
specification yields in a fresh interpreter; (4) the class/module-level state of teaal.* after a history equals that
after the first event alone (nothing accumulates).  The state of the search is (snapshots of the parsed objects,
module-level state).
"""
import copy
import itertools
import json
import os
import subprocess
import sys

from mc.core.par import pmap, HarnessError
from mc.core.paths import REPO, VERIF
from mc.spec import build as B
from mc.spec import corpus, hw
from mc.spec.build import E, T, times

LEVEL = "model_checking"


def specs():
    """name -> raw YAML dictionary (mode metrics when it has an architecture)"""
    out = {}
    decl = {"A": ["K", "M"], "B": ["K", "N"], "Z": ["M", "N"]}
    mm = "Z[m, n] = A[k, m] * B[k, n]"

    def y(mapping, decl_=decl, exprs=(mm,)):
        return {"einsum": {"declaration": copy.deepcopy(decl_), "expressions": list(exprs)}, "mapping": mapping}
    out["plain"] = y({})
    out["shape"] = y({"partitioning": {"Z": {"K": ["uniform_shape(4)", "uniform_shape(2)"], "M": ["uniform_occupancy(A.2)"]}}})
    out["flatA"] = y({"partitioning": {"Z": {"(M, K)": ["flatten()"], "MK": ["uniform_occupancy(A.5)"]}}, "loop-order": {"Z": ["MK1", "N", "MK0"]}})
    out["flatB"] = y({"partitioning": {"Z": {"K": ["uniform_shape(4)"], "(M, K0)": ["flatten()"]}}, "loop-order": {"Z": ["K1", "MK0", "N"]}})
    out["conv"] = y({"partitioning": {"O": {"Q": ["uniform_shape(6)", "uniform_shape(3)"], "W": ["follow(Q)"]}}, "loop-order": {"O": ["Q2", "Q1", "W0", "Q0"]}},
                    {"I": ["W"], "F": ["S"], "O": ["Q"]}, ("O[q] = I[q + s] * F[s]",))
    out["cascade"] = y({"rank-order": {"T": ["N", "M"]}}, {"A": ["K", "M"], "B": ["K", "N"], "C": ["M", "N"], "T": ["M", "N"], "Z": ["M", "N"]},
                       ("T[m, n] = A[k, m] * B[k, n]", "Z[m, n] = T[m, n] * C[m, n]"))
    out["spacetime"] = y({"loop-order": {"Z": ["M", "K", "N"]}, "spacetime": {"Z": {"space": ["N"], "time": ["M", "K.coord"], "opt": "slip"}}})
    # metrics-mode specifications from the hardware alphabet: one per kind of binding that carries defaults / expansions
    # (built directly from the binding menus, so that no slice of hw.configs() can silently drop one)
    want = [("mm/MKN", {"Z": ["buf:A.K@root/lazy"]}), ("mm/MKN", {"Z": ["buf:Z.N@M/eager"]}), ("mm/MKN", {"Z": ["cache:B.N"]}),
            ("mm/MKN", {"Z": ["isL:K<B"]}), ("mm/shape", {"Z": ["buf:A.K0@K1/eager", "seq:K1"]}), ("mm/flat", {"Z": ["buf:B.K0@K1/lazy"]}),
            ("gamma", {"T": ["isL:K<A"], "Z": ["mrg:T"]}), ("mm/MKN", {"Z": ["buf2x:Z.N/lazy-eager"]})]
    for base, labels in want:
        name = "hw:%s|%s|cp" % (base, "+".join((("%s:" % o if len(labels) > 1 else "") + l) for o, ls in labels.items() for l in ls))
        out[name] = B.to_yaml(hw.config(base, labels)[0])
    # one buffet bound in both Einsums of a cascade: eager in the first, explicitly lazy in the last
    z = B.to_yaml(hw.config("cas2", {"T": ["buf:T.N@K/lazy"], "Z": ["buf:Z.M@K/lazy"]})[0])
    for comp in z["bindings"]["T"]:
        if comp.get("component") == "Buf":
            comp["bindings"] = hw.mem_bindings("T", "N", ["coord"], evict="K", style="eager")
    out["hw:cas2-eager-lazy"] = z
    # a buffer binding of type coord on a rank whose format declares no cbits
    if "hw:mm/MKN|buf:A.K@root/lazy|cp" in out:
        z = copy.deepcopy(out["hw:mm/MKN|buf:A.K@root/lazy|cp"])
        for f in z["format"]["A"].values():
            for r, d in f.items():
                if isinstance(d, dict):
                    d.pop("cbits", None)
        out["hw:nocbits"] = z
    for fname, yy in corpus.yaml_files():
        if fname in ("gamma.yaml", "extensor.yaml", "outerspace.yaml", "sigma.yaml"):
            out["file:" + fname] = yy
    return out


# ------------------------------------------------------------------ generic deep snapshot

def snap(x, depth=0, seen=None):
    if seen is None:
        seen = set()
    if depth > 40:
        return "<deep>"
    if isinstance(x, (str, int, float, bool, type(None))):
        return x
    if id(x) in seen and not isinstance(x, (tuple,)):
        return "<cycle>"
    seen = seen | {id(x)}
    tn = type(x).__name__
    mod = type(x).__module__ or ""
    if isinstance(x, dict):
        return {"__dict__": sorted(((repr(snap(k, depth + 1, seen)), snap(v, depth + 1, seen)) for k, v in x.items()), key=lambda kv: kv[0])}
    if isinstance(x, (list, tuple)):
        return [tn] + [snap(v, depth + 1, seen) for v in x]
    if isinstance(x, (set, frozenset)):
        return [tn] + sorted((snap(v, depth + 1, seen) for v in x), key=repr)
    if mod.startswith("lark"):
        if tn == "Tree":
            return ["Tree", str(x.data)] + [snap(c, depth + 1, seen) for c in x.children]
        if tn == "Token":
            return ["Token", str(x.type), str(x)]
        return "<lark %s>" % tn
    if mod.startswith("sympy"):
        return "sympy:" + str(x)
    if mod.startswith("networkx"):
        return ["graph", sorted(repr(n) + repr(sorted(d.items())) for n, d in x.nodes(data=True)), sorted(repr(e) for e in x.edges(data=True))]
    if hasattr(x, "__dict__") and not isinstance(x, type) and not callable(x):
        return [tn, snap(vars(x), depth + 1, seen)]
    return "<%s>" % tn


def module_state():
    out = {}
    for name, m in sorted(sys.modules.items()):
        if not (name == "teaal" or name.startswith("teaal.")) or m is None:
            continue
        for k, v in sorted(vars(m).items()):
            if k.startswith("__"):
                continue
            if isinstance(v, type) and getattr(v, "__module__", "") == name:
                for ck, cv in sorted(vars(v).items()):
                    if ck.startswith("__") or callable(cv) or isinstance(cv, (staticmethod, classmethod, property)):
                        continue
                    out["%s.%s.%s" % (name, k, ck)] = snap(cv)
                # mutable default arguments are interpreter-wide state too
                for ck, cv in vars(v).items():
                    f = getattr(cv, "__func__", cv)
                    if callable(f) and getattr(f, "__defaults__", None):
                        for i, d in enumerate(f.__defaults__):
                            if isinstance(d, (dict, list, set)):
                                out["%s.%s.%s.default%d" % (name, k, ck, i)] = snap(d)
            elif not isinstance(v, type) and not callable(v) and type(v).__name__ != "module" and not type(v).__module__.startswith("typing"):
                out["%s.%s" % (name, k)] = snap(v)
    return out


# ------------------------------------------------------------------ the state machine

def parse(y):
    from teaal.parse import Einsum, Mapping, Architecture, Bindings, Format
    metrics = "architecture" in y and "bindings" in y
    objs = [Einsum(copy.deepcopy(y)), Mapping(copy.deepcopy(y))]
    if metrics:
        objs += [Architecture(copy.deepcopy(y)), Bindings(copy.deepcopy(y)), Format(copy.deepcopy(y))]
    return objs


def compile_objs(objs):
    from teaal.trans.hifiber import HiFiber
    return str(HiFiber(*objs))


def fresh_text(item):
    """text of one specification compiled in a brand-new interpreter"""
    name, y = item
    code = ("import sys, json\nsys.path[:0] = [%r, %r]\nfrom mc.props import c15\n"
            "y = json.loads(sys.stdin.read())\nprint(c15.compile_objs(c15.parse(y)), end='')\n" % (VERIF, REPO))
    env = dict(os.environ, PYTHONHASHSEED=os.environ.get("PYTHONHASHSEED", "0"), PYTHONDONTWRITEBYTECODE="1")
    p = subprocess.run([sys.executable, "-c", code], input=json.dumps(y), capture_output=True, text=True, env=env)
    if p.returncode != 0:
        return name, None, p.stderr.strip().split("\n")[-1][:200]
    return name, p.stdout, None


_SPECS = {}
_FRESH = {}


def run_history(hist):
    """hist: list of spec names.  Runs in a forked worker, i.e. in an interpreter whose teaal state is that of the parent
    (which never compiled anything)."""
    objs = {}
    out = {"viol": None, "kind": None, "states": [], "texts": 0}
    for step, name in enumerate(hist):
        y = _SPECS[name]
        if name not in objs:
            try:
                objs[name] = parse(y)
            except Exception as e:
                out["viol"], out["kind"] = "parsing %s fails: %s: %s" % (name, type(e).__name__, e), "parse"
                return out
        before = snap(objs[name])
        try:
            text = compile_objs(objs[name])
        except Exception as e:
            if _FRESH.get(name) is None:
                return out          # the specification does not compile in a fresh interpreter either
            out["viol"] = "step %d: compiling %s fails (%s: %s) although it compiles in a fresh interpreter" % (step, name, type(e).__name__, e)
            out["kind"] = "repeat-fails" if hist[:step].count(name) else "history-dependent-failure"
            return out
        out["texts"] += 1
        after = snap(objs[name])
        if before != after:
            out["viol"] = "step %d: compiling %s changed its parsed inputs: %s" % (step, name, first_diff(before, after))
            out["kind"] = "input-mutated"
            return out
        if _FRESH.get(name) is not None and text != _FRESH[name]:
            out["viol"] = "step %d: text of %s after history %r differs from the text in a fresh interpreter\n%s" % (
                step, name, hist[:step], text_diff(_FRESH[name], text))
            out["kind"] = "text-depends-on-history"
            return out
        ms = module_state()
        out["states"].append(hash(B.canon([after, sorted(ms.items())])))
        if step == 0:
            first_ms = ms
        elif set(hist[:step + 1]) == {hist[0]} and ms != first_ms:
            out["viol"] = "step %d: interpreter-wide state of teaal grew while the same specification was compiled again: %s" % (
                step, first_diff(first_ms, ms))
            out["kind"] = "module-state"
            return out
    return out


def first_diff(a, b, path="x"):
    if type(a) is not type(b):
        return "%s: %r vs %r" % (path, a, b)
    if isinstance(a, dict):
        for k in sorted(set(a) | set(b), key=repr):
            if k not in a or k not in b:
                return "%s[%r]: %s" % (path, k, "added" if k in b else "removed")
            d = first_diff(a[k], b[k], "%s[%r]" % (path, k))
            if d:
                return d
        return None
    if isinstance(a, list):
        if len(a) != len(b):
            return "%s: %d vs %d elements; now %s" % (path, len(a), len(b), repr(b)[:300])
        for i, (x, y) in enumerate(zip(a, b)):
            d = first_diff(x, y, "%s[%d]" % (path, i))
            if d:
                return d
        return None
    return None if a == b else "%s: %r vs %r" % (path, a, b)


def text_diff(a, b):
    la, lb = a.split("\n"), b.split("\n")
    for i, (x, y) in enumerate(zip(la, lb)):
        if x != y:
            return "line %d:\n  fresh : %s\n  now   : %s" % (i + 1, x, y)
    return "lengths differ: %d vs %d lines" % (len(la), len(lb))


def warm_up():
    """Lazy one-time initialisation of the libraries (sympy, lark) is paid once in the parent instead of in every forked child:
    every history therefore starts from the interpreter state 'plain, gamma and conv were compiled once from their own
    objects', which is itself compared with fresh interpreters through oracle (3)."""
    for n in ("plain", "conv", "file:gamma.yaml"):
        if n in _SPECS:
            try:
                compile_objs(parse(_SPECS[n]))
            except Exception:
                pass


def run(ctx):
    sp = specs()
    _SPECS.clear()
    _SPECS.update(sp)
    fr = pmap(fresh_text, sorted(sp.items()), jobs=ctx.jobs, chunk=1)
    _FRESH.clear()
    notes = {}
    for name, text, err in fr:
        _FRESH[name] = text
        if err:
            notes[name] = err
    warm_up()
    names = sorted(sp)
    depth = ctx.pick(2, 3)
    hists = [list(h) for d in range(1, depth + 1) for h in itertools.product(names, repeat=d)
             if d < 3 or len(set(h)) <= 2 or h[0] == h[2]]
    if not ctx.quick:
        # three compilations from the same objects, and ABA / AAB / ABB patterns are included above; add depth 4 on a core
        core = [n for n in names if n in ("flatA", "flatB", "hw:mm/MKN|buf:Z.N@M/eager|cp")]
        hists += [list(h) for h in itertools.product(core, repeat=4)]
    res = pmap(run_history, hists, jobs=ctx.jobs, seed=ctx.seed, fresh=True, progress="C15")
    viols, states, ntext = [], set(), 0
    for h, r in zip(hists, res):
        ntext += r["texts"]
        states.update(r["states"])
        if r["viol"]:
            viols.append({"sig": {"kind": r["kind"], "spec": culprit(h, r), "len": len(h)},
                          "msg": "history %r\n%s" % (h, r["viol"]), "case": {"history": h}})
    viols.sort(key=lambda v: v["sig"]["len"])
    uniq = {}
    for v in viols:
        uniq.setdefault((v["sig"]["kind"], v["sig"]["spec"]), v)
    cov = {"states": len(states) + 1, "transitions": ntext, "traces_validated_against_impl": len(hists),
           "specifications": names, "specifications_not_compiling_even_fresh": notes, "depth": depth, "exhaustive": True,
           "samples": [{"history": hists[i]} for i in (0, len(hists) // 2, len(hists) - 1)],
           "explanation": "every history of compile events up to the depth (depth 3: histories over at most two specifications or of shape ABA) is "
                          "executed on the real HiFiber in a forked interpreter; reference texts come from brand-new interpreters"}
    return {"level": LEVEL, "coverage": cov, "violations": list(uniq.values()),
            "assumptions": ["the generic snapshot covers every attribute reachable from the five parsed objects (lark trees by data/children/token text)",
                            "PYTHONHASHSEED is fixed, so texts are comparable across interpreters"]}


def culprit(h, r):
    import re
    m = re.search(r"compiling (\S+)|text of (\S+) after", r["viol"])
    return (m.group(1) or m.group(2)) if m else h[-1]


def replay(ctx, case):
    if not _SPECS:
        sp = specs()
        _SPECS.update(sp)
        for name, text, err in map(fresh_text, sorted(sp.items())):
            _FRESH[name] = text
    warm_up()
    # run in a forked child so that this interpreter stays as it is
    r = _forked(case["history"])
    if r["viol"]:
        return [{"sig": {"kind": r["kind"], "spec": culprit(case["history"], r), "len": len(case["history"])}, "msg": r["viol"], "case": case}]
    return []


def _forked(hist):
    import multiprocessing as mp
    ctx = mp.get_context("fork")
    with ctx.Pool(1) as pool:
        return pool.apply(run_history, (hist,))
