"""C16 -- spacetime display is observation-only, complete and unambiguous.

E-SPEC x E-DATA: Einsums {matmul, 3-operand product, sum, 1-D convolution} x partitioning {none, shape split, occupancy
split, 2-level, flatten (+occupancy)} x level-monotone loop orders x every split of the loop ranks into space / time /
unstamped x styles (all-pos, all-coord, every single-rank deviation) x slip on/off x all presence patterns.
Oracle with recording createCanvas/addActivity/displayCanvas stand-ins:
  * the tensors equal the dense evaluation (hence the run without spacetime);
  * exactly one activity is reported per executed update (they alternate), one canvas is created and displayed;
  * every displayed tensor gets a point with one coordinate per rank of that tensor as passed to createCanvas;
  * when every loop rank is stamped (levels are looped outermost-to-innermost in this universe), no two activities carry
    the same (space, time) stamp.
"""
import copy
import itertools

from mc.core import execspec as X
from mc.core.par import pmap
from mc.model import refhifiber as hf
from mc.spec import build as B
from mc.spec import universe as U
from mc.spec.build import E, T, times
from mc.props.c02 import monotone_orders, levels

LEVEL = "exploration"


def bases(quick):
    out = []
    decl = {"A": ["K", "M"], "B": ["K", "N"], "Z": ["M", "N"]}
    mm = E("Z", ["m", "n"], times(T("A", "k", "m"), T("B", "k", "n")))
    e1 = {"K": 2, "M": 2, "N": 1}
    e2 = {"K": 3, "M": 2, "N": 1}
    out.append(("mm", decl, mm, None, [["M"], ["K"], ["N"]], e1))
    out.append(("mm/shape", decl, mm, {"K": ["uniform_shape(2)"]}, [["M"], levels("K", 1), ["N"]], e2))
    out.append(("mm/occ", decl, mm, {"K": ["uniform_occupancy(A.2)"]}, [["M"], levels("K", 1), ["N"]], e2))
    out.append(("mm/shapeM", decl, mm, {"M": ["uniform_shape(2)"]}, [levels("M", 1), ["K"], ["N"]], {"K": 2, "M": 3, "N": 1}))
    out.append(("mm/flat", decl, mm, {"(K, M)": ["flatten()"]}, [["KM"], ["N"]], e1))
    out.append(("mm/sigma", decl, mm, {"K": ["uniform_shape(2)"], "(M, K0)": ["flatten()"], "MK0": ["uniform_occupancy(A.2)"]},
                [["K1", "MK01", "MK00"], ["N"]], e2))
    if not quick:
        out.append(("mm/occ2", decl, mm, {"K": ["uniform_occupancy(A.2)", "uniform_occupancy(A.1)"]}, [["M"], levels("K", 2), ["N"]], e2))
        out.append(("mm/shape-occ", decl, mm, {"K": ["uniform_shape(2)", "uniform_occupancy(A.1)"]}, [["M"], levels("K", 2), ["N"]], e2))
        out.append(("mm/shape2", decl, mm, {"K": ["uniform_shape(2)", "uniform_shape(1)"]}, [["M"], levels("K", 2), ["N"]], e2))
    dew = {"A": ["M", "N"], "B": ["M", "N"], "Z": ["M", "N"]}
    ew = E("Z", ["m", "n"], times(T("A", "m", "n"), T("B", "m", "n")))
    out.append(("ew/flat", dew, ew, {"(M, N)": ["flatten()"]}, [["MN"]], {"M": 2, "N": 2}))
    out.append(("ew/flat-occ", dew, ew, {"(M, N)": ["flatten()"], "MN": ["uniform_occupancy(A.2)"]}, [["MN1", "MN0"]], {"M": 2, "N": 2}))
    d2 = {"A": ["K", "M"], "B": ["K", "M"], "C": ["K"], "Z": ["M"]}
    out.append(("mm3", d2, E("Z", ["m"], times(T("A", "k", "m"), T("B", "k", "m"), T("C", "k"))), None, [["M"], ["K"]], {"K": 2, "M": 2}))
    d3 = {"A": ["M"], "B": ["M"], "Z": ["M"]}
    out.append(("sum", d3, E("Z", ["m"], times(T("A", "m")), times(T("B", "m"))), None, [["M"]], {"M": 3}))
    out.append(("sum/shape", d3, E("Z", ["m"], times(T("A", "m")), times(T("B", "m"))), {"M": ["uniform_shape(2)"]}, [levels("M", 1)], {"M": 3}))
    dc = {"I": ["W"], "F": ["S"], "O": ["Q"]}
    conv = E("O", ["q"], times(T("I", {"q": 1, "s": 1}), T("F", "s")))
    out.append(("conv", dc, conv, None, [["Q"], ["S"]], {"Q": 3, "S": 2, "W": 4}))
    out.append(("conv/WQ", dc, conv, None, [["W"], ["Q"]], {"Q": 3, "S": 2, "W": 4}))
    out.append(("conv/part", dc, conv, {"Q": ["uniform_shape(2)"], "W": ["follow(Q)"]}, [["Q1", "W0", "Q0"]], {"Q": 4, "S": 2, "W": 5}))
    out.append(("conv/partS", dc, conv, {"Q": ["uniform_shape(2)"], "W": ["follow(Q)"]}, [["Q1", "S", "Q0"]], {"Q": 4, "S": 2, "W": 5}))
    db = {"A": ["K", "M"], "B": ["K"], "Z": ["M", "N"]}
    out.append(("bcast", db, E("Z", ["m", "n"], times(T("A", "k", "m"), T("B", "k"))), None, [["M"], ["K"], ["N"]], {"K": 2, "M": 2, "N": 2}))
    return out


def configs(ctx):
    quick = ctx.quick
    work = []
    for tag, decl, expr, part, chains, ext in bases(quick):
        o = expr["out"][0]
        los = monotone_orders(chains)
        if quick and len(los) > 3:
            los = [los[0], los[len(los) // 2], los[-1]]
        elif len(los) > 8:
            los = los[:: -(-len(los) // 8)]
        for lo in los:
            n = len(lo)
            assigns = list(itertools.product("stu", repeat=n))   # space / time / unstamped
            # the compiler only accepts splits that stamp every loop rank (anything else ends in a KeyError): all of those, plus
            # two partial ones that are merely counted as rejections
            full = [a for a in assigns if "u" not in a]
            partial = [a for a in assigns if a.count("u") == 1][:2]
            if quick and len(full) > 10:
                full = full[:: -(-len(full) // 10)]
            assigns = full + partial
            for a in assigns:
                stamped = [r for r, x in zip(lo, a) if x != "u"]
                if not stamped:
                    continue
                stylesets = [{}, {r: "coord" for r in stamped}]
                for r in stamped:
                    stylesets.append({r: "coord"})
                    if not quick:
                        stylesets.append({x: "coord" for x in stamped if x != r})
                seen = set()
                for sty in stylesets:
                    k = tuple(sorted(sty.items()))
                    if k in seen:
                        continue
                    seen.add(k)
                    for slip in (False, True):
                        def stamp(r):
                            return r + (".coord" if sty.get(r) == "coord" else ("" if (sum(map(ord, r)) % 2) else ".pos"))
                        st = {"space": [stamp(r) for r, x in zip(lo, a) if x == "s"], "time": [stamp(r) for r, x in zip(lo, a) if x == "t"]}
                        if slip:
                            st["opt"] = "slip"
                        mapping = {"loop-order": {o: list(lo)}, "spacetime": {o: st}}
                        if part:
                            mapping["partitioning"] = {o: copy.deepcopy(part)}
                        work.append({"tag": "%s|%s|%s|%s%s" % (tag, "".join(lo), "".join(a), ",".join(sorted(sty)) or "pos", "|slip" if slip else ""),
                                     "spec": {"decl": decl, "exprs": [expr], "mapping": mapping}, "extents": ext,
                                     "all_stamped": "u" not in a, "loop": list(lo)})
    return work


def check(cfg):
    spec = cfg["spec"]
    out = {"status": "ok", "n": 0, "acts": 0}
    try:
        text = str(B.compile_spec(spec))
    except Exception as e:
        return {"status": "rejected", "reject": "%s: %s" % (type(e).__name__, " ".join(str(e).split()[:7]))}
    out["text_hash"] = hash(text)
    code = X.compile_code(text)
    # the same specification without the spacetime section: the reference for "does not change the computed tensors"
    plain_spec = copy.deepcopy(spec)
    del plain_spec["mapping"]["spacetime"]
    try:
        plain_code = X.compile_code(str(B.compile_spec(plain_spec)))
    except Exception as e:
        return fail(out, "plain-does-not-compile", "%s: %s" % (type(e).__name__, e), None, text)
    ext = cfg["extents"]
    cells = X.cell_list(spec, ext)
    for mask in range(1 << len(cells)):
        ins = X.inputs_of_mask(spec, cells, mask)
        r0 = X.run_case(plain_code, plain_spec, ext, ins, check_values=False, check_extent=False)
        r = X.run_case(code, spec, ext, ins, standins=True, check_values=False, check_extent=False)
        out["n"] += 1
        if not r0.ok:
            continue        # the plain program itself fails on this input (business of C01-C04): nothing to compare with
        if not r.ok:
            return fail(out, r.kind, r.msg, mask, text)
        if r.outputs != r0.outputs:
            return fail(out, "tensors-differ", "with spacetime: %s, without: %s" % (X.fmt(r.outputs[spec["exprs"][-1]["out"][0]]),
                                                                                  X.fmt(r0.outputs[spec["exprs"][-1]["out"][0]])), mask, text)
        w = r.world
        if len(w.canvases) != 1:
            return fail(out, "canvas-count", "%d canvases created" % len(w.canvases), mask, text)
        if [e for e in w.events if e[0] == "displayCanvas"] != [("displayCanvas", True)]:
            return fail(out, "display", "displayCanvas events: %r" % [e for e in w.events if e[0] == "displayCanvas"], mask, text)
        c = w.canvases[0]
        if any(rk is None for rk in c.rank_ids):
            return fail(out, "canvas-args", "createCanvas called with a non-tensor", mask, text)
        ups = [u for _, _, u in c.activities]
        if ups != list(range(1, len(ups) + 1)) or len(ups) != hf.State.updates:
            return fail(out, "activity-count", "%d activities for %d executed updates (update counter at each activity: %r)"
                        % (len(ups), hf.State.updates, ups[:12]), mask, text)
        stamps = set()
        for points, kw, _ in c.activities:
            if len(points) != len(c.rank_ids):
                return fail(out, "point-count", "addActivity with %d points for %d displayed tensors" % (len(points), len(c.rank_ids)), mask, text)
            for p, rk in zip(points, c.rank_ids):
                if not isinstance(p, tuple) or len(p) != len(rk):
                    return fail(out, "point-arity", "point %r for a displayed tensor with ranks %r" % (p, rk), mask, text)
            st = kw.get("spacetime")
            if not (isinstance(st, tuple) and len(st) == 2 and all(isinstance(x, tuple) for x in st)) or set(kw) != {"spacetime"}:
                return fail(out, "stamp-shape", "addActivity keyword arguments %r" % (kw,), mask, text)
            if cfg["all_stamped"]:
                key = hf.norm(st)
                if key in stamps:
                    return fail(out, "stamp-collision", "two activities carry the stamp %r" % (st,), mask, text)
                stamps.add(key)
        out["acts"] += len(c.activities)
    return out


def fail(out, kind, msg, mask, text):
    out["status"] = "fail"
    out["fail"] = {"kind": kind, "msg": msg, "mask": mask, "text": text}
    return out


def sig_of(cfg, f):
    parts = cfg["tag"].split("|")
    return {"kind": f["kind"], "base": parts[0], "styles": parts[3], "slip": len(parts) > 4,
            "error": f["msg"].split(" (emitted line")[0] if f["kind"] == "exception" else None}


def run(ctx):
    work = configs(ctx)
    res = pmap(check, work, jobs=ctx.jobs, seed=ctx.seed, progress="C16")
    viols, rejected, n, acts, texts = [], {}, 0, 0, set()
    for cfg, r in zip(work, res):
        if r["status"] == "rejected":
            rejected[r["reject"]] = rejected.get(r["reject"], 0) + 1
            continue
        n += r["n"]
        acts += r["acts"]
        texts.add(r["text_hash"])
        if r["status"] == "fail":
            f = r["fail"]
            viols.append({"sig": sig_of(cfg, f), "msg": "%s [%s] pattern mask %s\n%s\nspacetime: %s\n--- emitted program ---\n%s"
                          % (f["kind"], cfg["tag"], f["mask"], f["msg"], cfg["spec"]["mapping"]["spacetime"], f["text"]), "case": {"cfg": cfg}})
    uniq = {}
    for v in viols:
        uniq.setdefault(B.canon(v["sig"]), v)
    cov = {"evaluations": n, "distinct_nontrivial": len(texts), "configurations": len(work), "activities_checked": acts,
           "compile_rejections": rejected,
           "rule": "bases x level-monotone loop orders x space/time/unstamped splits x styles x slip x all presence patterns; "
                   "distinct_nontrivial = distinct emitted programs executed", "exhaustive": True,
           "samples": [{"tag": w["tag"], "spacetime": w["spec"]["mapping"]["spacetime"]} for w in work[:: max(1, len(work) // 5)]][:6]}
    vs = list(uniq.values())
    if len(texts) < len(work) // 8:
        vs.insert(0, {"sig": {"kind": "vacuous"}, "msg": "hardly any spacetime configuration compiles: %s" % rejected, "case": None, "no_recheck": True})
    return {"level": LEVEL, "coverage": cov, "violations": vs,
            "assumptions": ["reference HiFiber model; recording createCanvas/addActivity/displayCanvas stand-ins",
                            "all loop orders of this universe keep partition levels outermost-to-innermost"]}


def replay(ctx, case):
    cfg = case["cfg"]
    r = check(cfg)
    if r["status"] == "fail":
        return [{"sig": sig_of(cfg, r["fail"]), "msg": r["fail"]["msg"], "case": case}]
    return []
