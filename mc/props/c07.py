"""C07 -- tensor variable names tell the truth and inputs are never modified.

A mixed slice of the C01-C04 universes (every class represented) is compiled and executed for all presence patterns of
small extents; the oracle inspects the *final global namespace* of the reference-model run:
  * every global <Name>_<Ranks>[_flat] that holds a tensor has "".join(getRankIds()) == <Ranks>;
  * each Einsum's result is bound to <Out>_<declared-or-rank-order ranks>, integer coordinates below the extents;
  * every user-supplied input variable and the original input objects hold exactly what they held before.
Value equality with the Einsum is the business of C01-C04 and is not re-judged here (partitioned affine
configurations, whose known defects F1-F3 would surface as out-of-extent coordinates, are left to C04).
"""
from mc.core import cfgcheck
from mc.core.par import pmap
from mc.core import execspec as X
from mc.spec import universe as U
from mc.spec import build as B
from mc.props import c01, c02, c03, c04

LEVEL = "exploration"


def shrink(cfg, max_cells, spec0=None):
    """replace the extent vectors by the Pareto-maximal ones within a smaller cell bound"""
    spec = cfg["spec"]
    ranks = sorted(set(r for rs in spec["decl"].values() for r in rs))
    part = ((spec.get("mapping") or {}).get("partitioning") or {}).get("Z") or {}
    need = [r for r in ranks if any(r in k for k in part)]
    ex, mc_ = [], max_cells
    while not ex:
        ex = U.pareto_extents(ranks, lambda e: X.n_cells(spec, e) if all(e[r] >= 2 for r in need) else 10 ** 9, (1, 2, 3), mc_)
        mc_ += 1
    return ex


def configs(ctx):
    quick = ctx.quick
    max_cells = ctx.pick(6, 9)
    work = []

    class Q:  # the slices are always drawn from the quick universes of the other checks
        tier, quick, seed, jobs = "quick", True, 0, 1

        @staticmethod
        def pick(a, b):
            return a
    src = []
    w1 = c01.configs(Q)
    src += w1 if not quick else w1[::2]
    w2 = [w for w in c02.configs(Q) if not w["tag"].startswith("P7")]
    src += w2[::(4 if quick else 1)]
    w3 = c03.configs(Q)
    # every configuration whose *output* is flattened / partitioned together with inputs (element-wise templates), a slice of
    # the others
    ew = [w for w in w3 if w["tag"].startswith(("EW2/flat", "EW3/flat:", "EW4/"))]
    src += ew + [w for w in w3[::(3 if quick else 1)] if w not in ew]
    for w in src:
        cfg = dict(w)
        if w["tag"].startswith(("ACC/", "EW4/", "EW3/flat:")):
            cfg["extents"] = w["extents"][:1]
        else:
            cfg["extents"] = shrink(w, max_cells)
        # never more than 2^13 patterns per extent vector
        cfg["extents"] = [e for e in cfg["extents"] if X.n_cells(w["spec"], e) <= 13]
        if not cfg["extents"]:
            continue
        work.append(cfg)
    for w in c04.configs(Q):
        if "partitioning" in w["spec"]["mapping"]:
            continue
        cfg = dict(w)
        cfg["extents"] = w["extents"][:2]
        cfg["policies"] = ["M"]
        work.append(cfg)
    for cfg in work:
        cfg["check"] = {"c07": True, "check_values": False, "check_extent": True}
    return work


RULE = ("a slice of the C01 (loop/rank orders), C02 (shape stacks), C03 (occupancy, flattening) and unpartitioned C04 universes "
        "x all presence patterns of small extents; oracle on the final namespace (names vs rank ids, output name and coordinate "
        "space, inputs unchanged); distinct_nontrivial = distinct (configuration, extents, output)")


def run(ctx):
    work = configs(ctx)
    res = pmap(cfgcheck.check_cfg, work, jobs=ctx.jobs, seed=ctx.seed, progress="C07")
    cov, viols = cfgcheck.aggregate(work, res, "C07", rule=RULE)
    ok = [(w, r) for w, r in zip(work, res) if r["status"] == "ok"]
    cov["samples"] = [{"tag": w["tag"], "einsum": [B.render_expr(e) for e in w["spec"]["exprs"]],
                       "mapping": w["spec"]["mapping"], "extents": w["extents"], "executions": r["n"]}
                      for w, r in ok[:: max(1, len(ok) // 5)]][:6]
    return {"level": LEVEL, "coverage": cov, "violations": viols,
            "assumptions": ["reference HiFiber model: setRankIds is in place, fromFiber/getRoot alias, every other transformation copies"]}


def replay(ctx, case):
    return cfgcheck.replay_cfg("C07", case)
