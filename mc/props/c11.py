"""C11 -- metrics instrumentation does not change what is computed.

E-SPEC x E-DATA: Einsums {matmul in several loop orders / shape / occupancy / flatten mappings, 3-operand product, sum,
gamma-like take cascade} x every combination of <= MAXB component bindings from the hardware alphabet of mc/spec/hw.py
(DRAM->Buffet lazy/eager with every evict-on, DRAM->Cache, compute, each intersector type on each co-iterated rank with
each leader, sequencers, mergers) x formats.  Oracle: with inert stand-ins, the tensors after the metrics-mode program
equal the dense evaluation (and hence those of the plain-mode program, which is checked the same way) on all presence
patterns.
"""
import copy

from mc.core import execspec as X
from mc.core.par import pmap
from mc.spec import build as B
from mc.spec import hw

LEVEL = "exploration"


class _Cfg(dict):
    pass


def configs(ctx):
    out = []
    for tag, spec, exts, labels in hw.configs(ctx.quick):
        out.append({"tag": tag, "spec": spec, "extents": exts, "labels": labels})
    return out


def strip_hw(spec):
    s = {k: copy.deepcopy(v) for k, v in spec.items() if k in ("decl", "exprs", "mapping")}
    return s


def check(cfg):
    spec = cfg["spec"]
    out = {"status": "ok", "n": 0, "reject": None, "fail": None, "distinct": 0}
    try:
        text = str(B.compile_spec(spec, "metrics"))
    except (ValueError, NotImplementedError) as e:
        out["status"] = "rejected"
        out["reject"] = "%s: %s" % (type(e).__name__, " ".join(str(e).split()[:6]))
        return out
    except Exception as e:
        out["status"] = "crash"
        out["reject"] = "%s: %s" % (type(e).__name__, str(e)[:60])
        return out
    out["text_hash"] = hash(text)
    try:
        plain = str(B.compile_spec(strip_hw(spec)))
    except Exception as e:
        out["status"] = "fail"
        out["fail"] = {"kind": "plain-does-not-compile", "msg": "%s: %s" % (type(e).__name__, e), "text": text}
        return out
    for ext in cfg["extents"]:
        for mode, t in (("metrics", text), ("plain", plain)):
            r = X.sweep(t, spec, ext, standins=True, max_fail=1)
            out["n"] += r["n"]
            out["distinct"] += r["distinct_outputs"]
            if r["fails"]:
                mask, kind, msg = r["fails"][0]
                out["status"] = "fail"
                out["fail"] = {"kind": kind, "mode": mode, "msg": msg, "extents": ext, "mask": mask, "text": t, "nfail": len(r["failmask"])}
                return out
    return out


def sig_of(cfg, f):
    return {"kind": f["kind"], "mode": f.get("mode"), "base": cfg["tag"].split("|")[0],
            "labels": sorted(l.split("@")[0] for l in cfg["labels"]) if f.get("mode") == "metrics" else [],
            "error": f["msg"].split(" (emitted line")[0] if f["kind"] == "exception" else None}


def run(ctx):
    work = configs(ctx)
    res = pmap(check, work, jobs=ctx.jobs, seed=ctx.seed, progress="C11")
    viols, rejected, crashed, n, texts, distinct = [], {}, {}, 0, set(), 0
    for cfg, r in zip(work, res):
        n += r["n"]
        distinct += r["distinct"]
        if r["status"] == "rejected":
            rejected[r["reject"]] = rejected.get(r["reject"], 0) + 1
        elif r["status"] == "crash":
            crashed[r["reject"]] = crashed.get(r["reject"], 0) + 1
        else:
            texts.add(r["text_hash"])
            if r["status"] == "fail":
                f = r["fail"]
                viols.append({"sig": sig_of(cfg, f),
                              "msg": "%s [%s] %s mode, extents %s, pattern mask %s (%s failing)\n%s\n--- emitted program ---\n%s"
                                     % (f["kind"], cfg["tag"], f.get("mode"), f.get("extents"), f.get("mask"), f.get("nfail"), f["msg"], f.get("text")),
                              "case": {"cfg": cfg}})
    uniq = {}
    for v in viols:
        uniq.setdefault(B.canon(v["sig"]), v)
    accepted = len(texts)
    cov = {"evaluations": n, "distinct_nontrivial": distinct, "configurations": len(work), "accepted_distinct_texts": accepted,
           "stated_rejections": rejected, "compiler_crashes_not_judged_here": crashed,
           "rule": "base Einsum/mapping x combinations of component bindings x formats; every accepted configuration is executed in "
                   "metrics mode and in plain mode on all presence patterns with inert stand-ins; distinct_nontrivial = distinct "
                   "(configuration, mode, output) with non-empty output", "exhaustive": True,
           "samples": [{"tag": w["tag"], "bindings": w["spec"]["bindings"]} for w in work[:: max(1, len(work) // 4)]][:5]}
    if accepted < len(work) // 4:
        viols = [{"sig": {"kind": "vacuous"}, "msg": "fewer than a quarter of the hardware configurations compile (%d of %d): %s %s"
                  % (accepted, len(work), rejected, crashed), "case": None, "no_recheck": True}] + viols
        uniq = {B.canon(v["sig"]): v for v in viols}
    return {"level": LEVEL, "coverage": cov, "violations": list(uniq.values()),
            "assumptions": ["reference HiFiber model; Metrics/Traffic/Compute/Format/*Intersector stand-ins are inert",
                            "Fiber.intersection(*fs, style=...) yields payload tuples nested in argument order"]}


def replay(ctx, case):
    cfg = case["cfg"]
    r = check(cfg)
    if r["status"] == "fail":
        return [{"sig": sig_of(cfg, r["fail"]), "msg": r["fail"]["msg"], "case": case}]
    return []
