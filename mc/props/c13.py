"""C13 -- Fusion blocks are a legal, ordered partition of the Einsums  (E-HIST)

Explicit-state breadth-first exploration of the real Fusion state machine: every transition calls the
real Program.add_einsum / Fusion.add_einsum / Program.reset on objects built from a generated
specification.  A state is the history that reaches it, canonicalised by the Fusion object's fields.
Oracle: the legality rules of the statement, evaluated by an independent 30-line reference on the
generating event list (never on the compiler's own parse).
"""
import copy
import itertools
import re
import ast as pyast

from mc.core.par import pmap

LEVEL = "model_checking"

CONFIG_COMPONENTS = {
    "configA": [("FPMul0", "compute"), ("FPMul1", "compute"), ("IS0", "intersector")],
    "configB": [("FPMulB", "compute"), ("SeqB", "sequencer")],
}
LOOP_ORDERS = [["M", "K", "N"], ["K", "M", "N"]]
# output names deliberately not in alphabetical order (a dump that sorts blocks must be noticed)
NAMES = ["T", "P", "Z", "Q", "R", "E"]


def events(tier):
    evs = []
    for cfg, comps in CONFIG_COMPONENTS.items():
        names = [c for c, _ in comps]
        subsets = [s for r in range(len(names) + 1) for s in itertools.combinations(names, r)]
        if tier == "quick":
            # quick alphabet: at most 2 components bound at once
            subsets = [s for s in subsets if len(s) <= 2]
        prefixes = []
        for lo in LOOP_ORDERS:
            for p in (0, 1, 2, None):
                prefixes.append((lo, p))
        for lo, p in prefixes:
            for s in subsets:
                evs.append({"cfg": cfg, "lo": lo, "sp": p, "comps": list(s)})
                # the same event with the time list written in another order than the loop order (the prefix the statement
                # speaks of is the prefix of the *loop order*)
                if p == 2 and (tier != "quick" or len(s) <= 1):
                    evs.append({"cfg": cfg, "lo": lo, "sp": p, "comps": list(s), "trev": True})
    return evs


def small_events():
    """The 16-event alphabet used for deep histories: one config pair, two prefixes, four binding sets."""
    evs = []
    for cfg, sets in (("configA", [[], ["FPMul0"], ["FPMul1"], ["FPMul0", "IS0"]]),
                      ("configB", [[], ["FPMulB"]])):
        for lo, p in ((LOOP_ORDERS[0], 1), (LOOP_ORDERS[0], 2), (LOOP_ORDERS[1], 1)) if cfg == "configA" else ((LOOP_ORDERS[0], 1), (LOOP_ORDERS[0], 2)):
            for s in sets:
                evs.append({"cfg": cfg, "lo": lo, "sp": p, "comps": list(s)})
    return evs


def prefix_of(ev):
    return ev["lo"] if ev["sp"] is None else ev["lo"][:ev["sp"]]


def build_yaml(hist):
    decl = {"A": ["K", "M"], "B": ["K", "N"]}
    exprs, lo, st, bind = [], {}, {}, {}
    for i, ev in enumerate(hist):
        t = NAMES[i]
        decl[t] = ["K", "M", "N"]
        exprs.append("%s[k, m, n] = A[k, m] * B[k, n]" % t)
        lo[t] = list(ev["lo"])
        space = [] if ev["sp"] is None else ev["lo"][ev["sp"]:]
        time = ev["lo"] if ev["sp"] is None else ev["lo"][:ev["sp"]]
        if ev.get("trev"):
            time = list(reversed(time))
        st[t] = {"space": list(space), "time": list(time)}
        b = [{"config": ev["cfg"], "prefix": "tmp/" + t}]
        for c in ev["comps"]:
            kind = dict(CONFIG_COMPONENTS[ev["cfg"]])[c]
            if kind == "compute":
                b.append({"component": c, "bindings": [{"op": "mul"}]})
            elif kind == "intersector":
                b.append({"component": c, "bindings": [{"rank": "K"}]})
            else:
                b.append({"component": c, "bindings": [{"rank": "K"}]})
        bind[t] = b
    arch = {}
    for cfg, comps in CONFIG_COMPONENTS.items():
        local = []
        for c, kind in comps:
            if kind == "compute":
                local.append({"name": c, "class": "compute", "attributes": {"type": "mul"}})
            elif kind == "intersector":
                local.append({"name": c, "class": "intersector", "attributes": {"type": "two-finger"}})
            else:
                local.append({"name": c, "class": "sequencer", "attributes": {"num_ranks": 2}})
        arch[cfg] = [{"name": "System", "attributes": {"clock_frequency": 1000}, "local": local}]
    fmt = {}
    return {"einsum": {"declaration": decl, "expressions": exprs},
            "mapping": {"loop-order": lo, "spacetime": st},
            "architecture": arch, "bindings": bind, "format": fmt}


def legal(hist, blocks):
    """Independent reference: the statement of C13 applied to the generating events."""
    names = NAMES[:len(hist)]
    flat = [e for b in blocks for e in b]
    if flat != names:
        return "blocks %r are not an ordered contiguous partition of %r" % (blocks, names)
    if any(len(b) == 0 for b in blocks):
        return "empty block in %r" % (blocks,)
    for b in blocks:
        evs = [hist[NAMES.index(n)] for n in b]
        if len({e["cfg"] for e in evs}) > 1:
            return "block %r mixes hardware configurations" % (b,)
        if len({tuple(prefix_of(e)) for e in evs}) > 1:
            return "block %r mixes temporal prefixes %r" % (b, [prefix_of(e) for e in evs])
        seen = set()
        for e in evs:
            dup = seen & set(e["comps"])
            if dup:
                return "block %r binds functional component(s) %s in more than one Einsum" % (b, sorted(dup))
            seen |= set(e["comps"])
    return None


def greedy(hist):
    blocks, cur = [], None
    for i, e in enumerate(hist):
        key = (e["cfg"], tuple(prefix_of(e)))
        if cur and cur[0] == key and not (cur[1] & set(e["comps"])):
            blocks[-1].append(NAMES[i])
            cur[1] |= set(e["comps"])
        else:
            blocks.append([NAMES[i]])
            cur = [key, set(e["comps"])]
    return blocks


def drive(hist):
    """Run the real state machine over the history; returns (blocks, canonical state, per-step states)."""
    from teaal.ir.fusion import Fusion
    from teaal.ir.hardware import Hardware
    from teaal.ir.program import Program
    from teaal.parse import Einsum, Mapping, Architecture, Bindings
    y = build_yaml(hist)
    program = Program(Einsum(copy.deepcopy(y)), Mapping(copy.deepcopy(y)))
    program.add_einsum(0)
    hw = Hardware(Architecture(copy.deepcopy(y)), Bindings(copy.deepcopy(y)), program)
    program.reset()
    f = Fusion(hw)
    states = []
    for i in range(len(hist)):
        program.add_einsum(i)
        f.add_einsum(program)
        program.reset()
        states.append(canon_state(f))
    return copy.deepcopy(f.get_blocks()), states


def canon_state(f):
    """Everything the future behaviour of Fusion.add_einsum can depend on (block *names* abstracted to
    the block length, which cannot influence a decision but distinguishes 'open' from 'extended')."""
    d = vars(f)
    return (d.get("curr_config"), tuple(d.get("fused_ranks") or ()), tuple(sorted(d.get("components_used") or ())),
            len(d.get("curr_block") or ()))


def dump_blocks(hist):
    """metrics["blocks"] literal of the emitted metrics-mode program."""
    from teaal.parse import Einsum, Mapping, Architecture, Bindings, Format
    from teaal.trans.hifiber import HiFiber
    y = build_yaml(hist)
    h = HiFiber(Einsum(copy.deepcopy(y)), Mapping(copy.deepcopy(y)), Architecture(copy.deepcopy(y)),
                Bindings(copy.deepcopy(y)), Format(copy.deepcopy(y)))
    text = str(h)
    ms = re.findall(r'^metrics\["blocks"\] = (.*)$', text, flags=re.M)
    if len(ms) != 1:
        return "expected exactly one metrics[\"blocks\"] assignment, found %d" % len(ms), None
    return None, pyast.literal_eval(ms[0])


def check_history(item):
    hist, with_dump = item
    out = {"viol": None, "states": None, "blocks": None, "nongreedy": False}
    try:
        blocks, states = drive(hist)
    except Exception as e:  # the alphabet contains only legal specifications
        out["viol"] = "exception while driving the state machine: %s: %s" % (type(e).__name__, e)
        out["kind"] = "exception"
        return out
    out["states"] = states
    out["blocks"] = blocks
    why = legal(hist, blocks)
    if why:
        out["viol"] = why
        out["kind"] = "illegal-blocks"
    elif blocks != greedy(hist):
        out["nongreedy"] = True
    if with_dump and not out["viol"]:
        try:
            err, lit = dump_blocks(hist)
        except Exception as e:
            err, lit = "metrics-mode compilation failed: %s: %s" % (type(e).__name__, e), None
        if err:
            out["viol"], out["kind"] = err, "dump"
        else:
            why = legal(hist, lit)
            if why:
                out["viol"], out["kind"] = "metrics[\"blocks\"] literal: " + why, "dump-illegal"
            out["dumped"] = True
    return out


def sig_of(hist, kind):
    return {"kind": kind, "history": [[e["cfg"], "".join(e["lo"]), e["sp"], ",".join(e["comps"])] for e in hist]}


def run(ctx):
    evs = events(ctx.tier)
    small = small_events()
    # every history up to the depth bound over the full alphabet (no deduplication), plus deeper histories
    # over the small alphabet
    depth_full = 2
    depth_small = ctx.pick(3, 4)
    work = {}
    for d in range(1, depth_full + 1):
        for h in itertools.product(evs, repeat=d):
            work[str(list(h))] = (list(h), False)
    for d in range(1, depth_small + 1):
        for h in itertools.product(small, repeat=d):
            # metrics-mode dump literal: all histories of length <= 2 over the small alphabet
            if d <= 2 or str(list(h)) not in work:
                work[str(list(h))] = (list(h), d <= 2)
    work = list(work.values())
    # metrics-mode dump literal for all histories of length <= 2 over the small alphabet happens above
    # (with_dump), length-3 over a slice in thorough
    if not ctx.quick:
        for h in itertools.product(small[:8], repeat=3):
            work.append((list(h), True))
    res = pmap(check_history, work, jobs=ctx.jobs, seed=ctx.seed)
    states, transitions, viols, nong, dumped = set(), set(), [], 0, 0
    blockshapes = set()
    for (h, _), r in zip(work, res):
        if r["states"]:
            prev = ("init",)
            for ev, s in zip(h, r["states"]):
                transitions.add((prev, str(ev), s))
                states.add(s)
                prev = s
        if r["blocks"] is not None:
            blockshapes.add(tuple(len(b) for b in r["blocks"]))
        nong += r["nongreedy"]
        dumped += bool(r.get("dumped"))
        if r["viol"]:
            viols.append({"sig": sig_of(h, r["kind"]), "msg": "%s\nhistory: %r\nblocks: %r" % (r["viol"], h, r["blocks"]),
                          "case": {"history": h, "with_dump": True}})
    # shortest first
    viols.sort(key=lambda v: (len(v["case"]["history"]), str(v["sig"])))
    # only the minimal histories are reported: a history that extends a failing history is the same defect
    minimal = []
    for v in viols:
        h = v["case"]["history"]
        if not any(m["case"]["history"] == h[:len(m["case"]["history"])] or m["case"]["history"] == h[-len(m["case"]["history"]):]
                   for m in minimal):
            minimal.append(v)
    cov = {
        "states": len(states) + 1,
        "transitions": len(transitions),
        "traces_validated_against_impl": len(work),
        "histories": len(work),
        "alphabet_full": len(evs), "alphabet_small": len(small),
        "depth_full": depth_full, "depth_small": depth_small,
        "distinct_block_shapes": len(blockshapes),
        "histories_not_maximally_fused": nong,
        "histories_with_dump_literal_checked": dumped,
        "violating_histories": len(viols),
        "exhaustive": True,
        "samples": [{"history": work[i][0], "blocks": res[i]["blocks"]} for i in (0, len(work) // 2, len(work) - 1)],
        "explanation": "every history of Einsum events up to the stated depths is driven through the real "
                       "Program/Hardware/Fusion objects; each explored transition is an implementation step",
    }
    return {"level": LEVEL, "coverage": cov, "violations": minimal,
            "assumptions": ["space ranks are a suffix of the loop order (first spatial rank unambiguous)",
                            "functional component = compute / intersector / sequencer (FunctionalComponent)"]}


def replay(ctx, case):
    r = check_history((case["history"], case.get("with_dump", True)))
    if r["viol"]:
        return [{"sig": sig_of(case["history"], r["kind"]), "msg": r["viol"], "case": case}]
    return []
