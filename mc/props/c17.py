"""C17 -- specification text is parsed into exactly the structure written  (E-GRAM)

Exhaustive derivation of the sentences of the five grammars (Einsum, partitioning directive, rank tuple, spacetime
stamp, level name) up to stated structural bounds, each rendered with whitespace variants at terminal boundaries, plus
every single-token deletion / duplication / adjacent swap of a set of base sentences that leaves the language
(membership decided by an independent hand-written recogniser).  Oracle: an independent extractor walks the returned
lark tree (data / children only) and must return the generating structure; near misses must raise.
"""
import itertools
import re

from mc.core.par import pmap

LEVEL = "exploration"

# ------------------------------------------------------------------ structures -> token lists

ITERMS = [(1, "m", False), (1, "k", False), (2, "m", True), (-1, "k", True), (10, "k", True), (-2, "m", True), (1, "pos", True)]
# (coefficient, variable, written with an explicit coefficient)


def iterm_tokens(t):
    c, v, explicit = t
    if not explicit:
        return [v]
    if c < 0:
        return ["-", str(-c), "*", v]
    return [str(c), "*", v]


def iexprs():
    singles = [[t] for t in ITERMS]
    pairs = [[ITERMS[0], ITERMS[1]], [ITERMS[2], ITERMS[3]], [ITERMS[1], ITERMS[4]], [ITERMS[5], ITERMS[0]], [ITERMS[3], ITERMS[3]]]
    return singles + pairs


def iexpr_tokens(ie):
    out = []
    for i, t in enumerate(ie):
        if i:
            out.append("+")
        out.extend(iterm_tokens(t))
    return out


def tensor_tokens(name, ranks):
    out = [name, "["]
    for i, ie in enumerate(ranks):
        if i:
            out.append(",")
        out.extend(iexpr_tokens(ie))
    return out + ["]"]


def factor_tokens(f):
    return [f[1]] if f[0] == "var" else tensor_tokens(f[1], f[2])


def term_tokens(term):
    kind, fs, sel = term
    out = []
    if kind == "times":
        for i, f in enumerate(fs):
            if i:
                out.append("*")
            out.extend(factor_tokens(f))
        return out
    out.append("take(")
    for f in fs:
        out.extend(factor_tokens(f))
        out.append(",")
    return out + [str(sel), ")"]


def einsum_tokens(s):
    out = tensor_tokens(s["out"][0], s["out"][1]) + ["="]
    for i, t in enumerate(s["terms"]):
        if i:
            out.append("+")
        out.extend(term_tokens(t))
    return out


def norm_struct(s):
    """the structure the parser must report: signed integer coefficients"""
    def ie(x):
        return [(c, v) for c, v, _ in x]

    def fac(f):
        return ("var", f[1]) if f[0] == "var" else ("tensor", f[1], [ie(x) for x in f[2]])
    return {"out": (s["out"][0], [ie(x) for x in s["out"][1]]),
            "terms": [(k, [fac(f) for f in fs], sel) for k, fs, sel in s["terms"]]}


def einsum_sentences(quick):
    IE = iexprs()
    m1 = [IE[0]]
    sents = []
    A = ("tensor", "A", [IE[0]])
    # G1: every rank list of length 0..2 over the index-expression menu, on an input and on the output
    lists = [[]] + [[x] for x in IE] + [[x, y] for x in IE for y in (IE if not quick else IE[::3])]
    if not quick:
        lists += [[x, y, z] for x in IE[::2] for y in IE[::3] for z in IE[::4]]
    for rl in lists:
        sents.append({"out": ("Z", m1), "terms": [("times", [("tensor", "A", rl)], None)]})
        sents.append({"out": ("Z", rl), "terms": [("times", [A], None)]})
    # G2: term structure with keyword-like names
    F = [A, ("tensor", "B", [IE[1], IE[0]]), ("var", "a"), ("tensor", "take", [IE[0]]), ("var", "pos"), ("var", "take"), ("tensor", "Z9_", [])]
    times_terms = [("times", list(c), None) for n in (1, 2, 3) for c in itertools.product(F if n < 3 else F[:4], repeat=n)]
    take_terms = [("take", list(c), sel) for n in (1, 2, 3) for c in itertools.product(F[:5] if n < 3 else F[:3], repeat=n) for sel in range(n)]
    singles = times_terms + take_terms
    for t in singles:
        sents.append({"out": ("Z", m1), "terms": [t]})
    rep = [times_terms[0], times_terms[9], times_terms[30], take_terms[0], take_terms[7], take_terms[-1], ("times", [F[2], F[4]], None),
           ("take", [F[3], F[5]], 1)]
    if not quick:
        rep = rep + [times_terms[3], times_terms[15], take_terms[3], take_terms[20]]
    for n in (2, 3):
        for c in itertools.product(rep if n == 2 else rep[:(5 if quick else 8)], repeat=n):
            sents.append({"out": ("Z", m1), "terms": list(c)})
    return sents


KINDS = ["nway_shape", "uniform_occupancy", "uniform_shape", "flatten", "follow"]
SIZES = ["4", "10", "K0", "N", "0", "uniform_shape"]
LEADERS = ["A", "B1", "take", "flatten"]


def directive_sentences():
    out = []
    for k in KINDS:
        if k == "flatten":
            out.append((["flatten(", ")"], {"kind": k}))
        elif k == "follow":
            for l in LEADERS:
                out.append((["follow(", l, ")"], {"kind": k, "leader": l}))
        elif k == "uniform_occupancy":
            for l in LEADERS:
                for s in SIZES:
                    out.append(([k + "(", l, ".", s, ")"], {"kind": k, "leader": l, "size": s}))
        else:
            for s in SIZES:
                out.append(([k + "(", s, ")"], {"kind": k, "size": s}))
    return out


NAMES = ["M", "K0", "MK01", "_r", "pos", "coord", "flatten"]


def tuple_sentences():
    out = [([n], {"ranks": [n], "tuple": False}) for n in NAMES]
    for n in (2, 3):
        for c in itertools.product(NAMES[:5], repeat=n):
            toks = ["("]
            for i, x in enumerate(c):
                if i:
                    toks.append(",")
                toks.append(x)
            out.append((toks + [")"], {"ranks": list(c), "tuple": True}))
    return out


def stamp_sentences():
    out = []
    for n in NAMES:
        out.append(([n], {"rank": n, "style": "pos"}))
        out.append(([n, ".pos"], {"rank": n, "style": "pos"}))
        out.append(([n, ".coord"], {"rank": n, "style": "coord"}))
    return out


def level_sentences():
    out = []
    for n in ["PE", "System", "L1_", "x0"]:
        out.append(([n], {"name": n, "num": 1}))
        for k in ["0", "1", "7", "10", "127", "007", "9007199254740993", "18446744073709551615"]:
            out.append(([n, "[0..", k, "]"], {"name": n, "num": int(k) + 1}))
    return out


# ------------------------------------------------------------------ whitespace variants

def render(tokens, seps):
    out = tokens[0]
    for t, s in zip(tokens[1:], seps):
        out += s + t
    return out


def ws_variants(tokens, full):
    n = len(tokens) - 1
    yield [""] * n
    if n == 0:
        return
    yield [" "] * n
    yield ["\t"] * n
    yield ["  \t "] * n
    if not full:
        return
    for i in range(n):
        for w in (" ", "\t"):
            s = [""] * n
            s[i] = w
            yield s
    if n <= 14:
        for i, j in itertools.combinations(range(n), 2):
            for w1, w2 in ((" ", "\t"), ("\t", " ")):
                s = [""] * n
                s[i], s[j] = w1, w2
                yield s


# ------------------------------------------------------------------ independent extractors (lark tree -> structure)

def _tok(x):
    return str(x)


def x_iexpr(t):
    assert t.data == "iplus", t.data
    out = []
    for c in t.children:
        if c.data == "ijust":
            assert len(c.children) == 1
            out.append((1, _tok(c.children[0])))
        elif c.data == "itimes":
            assert len(c.children) == 2
            out.append((int(_tok(c.children[0])), _tok(c.children[1])))
        else:
            raise AssertionError("index term " + c.data)
    return out


def x_ranks(t):
    assert t.data == "ranks", t.data
    return [x_iexpr(c) for c in t.children]


def x_factor(t):
    if t.data == "var":
        assert len(t.children) == 1
        return ("var", _tok(t.children[0]))
    assert t.data == "tensor" and len(t.children) == 2, t.data
    return ("tensor", _tok(t.children[0]), x_ranks(t.children[1]))


def x_einsum(tree):
    assert tree.data == "einsum" and len(tree.children) == 2
    o, e = tree.children
    assert o.data == "output" and len(o.children) == 2
    out = (_tok(o.children[0]), x_ranks(o.children[1]))
    assert e.data == "plus"
    terms = []
    for t in e.children:
        if t.data == "times":
            terms.append(("times", [x_factor(f) for f in t.children], None))
        elif t.data == "take":
            terms.append(("take", [x_factor(f) for f in t.children[:-1]], int(_tok(t.children[-1]))))
        else:
            raise AssertionError("term " + t.data)
    return {"out": out, "terms": terms}


def x_directive(tree):
    d = {"kind": tree.data}
    for c in tree.children:
        if c.data == "leader":
            d["leader"] = _tok(c.children[0])
        elif c.data in ("int_sz", "str_sz"):
            d["size"] = _tok(c.children[0])
            d["size_kind"] = c.data
        else:
            raise AssertionError("directive child " + c.data)
    return d


# ------------------------------------------------------------------ independent recognisers (for near misses)

NAME_RE = re.compile(r"[A-Za-z_][A-Za-z_0-9]*")
NUM_RE = re.compile(r"(\d+\.\d*|\.\d+|\d+)([eE][+-]?\d+)?")


class R:
    def __init__(self, s):
        self.s, self.i = s, 0

    def ws(self):
        while self.i < len(self.s) and self.s[self.i] in " \t":
            self.i += 1

    def lit(self, x):
        self.ws()
        if self.s.startswith(x, self.i):
            self.i += len(x)
            return True
        return False

    def rx(self, r):
        self.ws()
        m = r.match(self.s, self.i)
        if m:
            self.i = m.end()
            return m.group(0)
        return None

    def end(self):
        self.ws()
        return self.i == len(self.s)


def rec_einsum(s):
    r = R(s)

    def iterm():
        save = r.i
        if r.lit("-"):
            if r.rx(NUM_RE) and r.lit("*") and r.rx(NAME_RE):
                return True
            r.i = save
            return False
        if r.rx(NUM_RE):
            if r.lit("*") and r.rx(NAME_RE):
                return True
            r.i = save
            return False
        return r.rx(NAME_RE) is not None

    def ranks():
        save = r.i
        if r.lit("]"):
            r.i = save
            return True
        while True:
            if not iterm():
                return False
            while r.lit("+"):
                if not iterm():
                    return False
            if not r.lit(","):
                return True

    def tensor_tail():
        return ranks() and r.lit("]")

    def factor():
        if r.rx(NAME_RE) is None:
            return False
        save = r.i
        if r.lit("["):
            return tensor_tail()
        r.i = save
        return True

    def term():
        save = r.i
        if r.lit("take("):
            n = 0
            while True:
                save2 = r.i
                if factor() and r.lit(","):
                    n += 1
                    continue
                r.i = save2
                break
            if n >= 1 and r.rx(NUM_RE) and r.lit(")"):
                return True
            r.i = save
        if not factor():
            return False
        while r.lit("*"):
            if not factor():
                return False
        return True

    if r.rx(NAME_RE) is None or not r.lit("[") or not tensor_tail() or not r.lit("="):
        return False
    if not term():
        return False
    while r.lit("+"):
        if not term():
            return False
    return r.end()


def rec_directive(s):
    r = R(s)
    for k in ("nway_shape(", "uniform_shape("):
        if r.lit(k):
            return (r.rx(NUM_RE) or r.rx(NAME_RE)) is not None and r.lit(")") and r.end()
    if r.lit("uniform_occupancy("):
        return r.rx(NAME_RE) is not None and r.lit(".") and (r.rx(NUM_RE) or r.rx(NAME_RE)) is not None and r.lit(")") and r.end()
    if r.lit("flatten("):
        return r.lit(")") and r.end()
    if r.lit("follow("):
        return r.rx(NAME_RE) is not None and r.lit(")") and r.end()
    return False


def rec_tuple(s):
    r = R(s)
    if r.lit("("):
        if r.rx(NAME_RE) is None:
            return False
        n = 1
        while r.lit(","):
            if r.rx(NAME_RE) is None:
                return False
            n += 1
        return n >= 2 and r.lit(")") and r.end()
    return r.rx(NAME_RE) is not None and r.end()


def rec_stamp(s):
    r = R(s)
    if r.rx(NAME_RE) is None:
        return False
    if r.end():
        return True
    return (r.lit(".pos") or r.lit(".coord")) and r.end()


def rec_level(s):
    r = R(s)
    if r.rx(NAME_RE) is None:
        return False
    if r.end():
        return True
    return r.lit("[0..") and r.rx(NUM_RE) is not None and r.lit("]") and r.end()


# ------------------------------------------------------------------ the five parsers under test

def parse_with(kind, text):
    if kind == "einsum":
        from teaal.parse.equation import EquationParser
        return EquationParser.parse(text)
    if kind == "directive":
        from teaal.parse.partitioning import PartitioningParser
        return PartitioningParser.parse_partitioning(text)
    if kind == "tuple":
        from teaal.parse.partitioning import PartitioningParser
        return PartitioningParser.parse_ranks(text)
    if kind == "stamp":
        from teaal.parse.spacetime import SpaceTimeParser
        return SpaceTimeParser.parse(text)
    from teaal.parse.level import LevelParser
    return LevelParser.parse(text)


def extract(kind, tree, text):
    if kind == "einsum":
        return x_einsum(tree)
    if kind == "directive":
        d = x_directive(tree)
        if "size" in d:
            want = "int_sz" if NUM_RE.fullmatch(d["size"]) else "str_sz"
            assert d.pop("size_kind") == want, "size %r classified wrongly" % d["size"]
        return d
    if kind == "tuple":
        assert tree.data in ("rank", "ranks")
        return {"ranks": [_tok(c) for c in tree.children], "tuple": tree.data == "ranks"}
    if kind == "stamp":
        assert len(tree.children) == 1
        return {"rank": _tok(tree.children[0]), "style": tree.data}
    # level: through the public Architecture class, which turns NAME[0..N] into N+1 instances
    from teaal.parse.arch import Architecture
    spec = Architecture({"architecture": {"cfg": [{"name": text}]}}).get_spec()
    node = spec["architecture"]["cfg"][0]
    return {"name": node["name"], "num": node["num"]}


def check_item(item):
    kind, text, want = item
    if want is None:
        # near miss: must raise
        try:
            parse_with(kind, text)
        except Exception:
            return None
        return "near-miss string is accepted"
    try:
        tree = parse_with(kind, text)
    except Exception as e:
        return "sentence of the grammar is rejected: %s: %s" % (type(e).__name__, str(e)[:120])
    try:
        got = extract(kind, tree, text)
    except AssertionError as e:
        return "unexpected tree shape: %s" % e
    except Exception as e:
        return "tree cannot be read back: %s: %s" % (type(e).__name__, e)
    if got != want:
        return "parsed structure %r differs from the written structure %r" % (got, want)
    return None


RECS = {"einsum": rec_einsum, "directive": rec_directive, "tuple": rec_tuple, "stamp": rec_stamp, "level": rec_level}


def near_misses(kind, tokens):
    out = set()
    n = len(tokens)
    for i in range(n):
        out.add(" ".join(tokens[:i] + tokens[i + 1:]))
        out.add(" ".join(tokens[:i] + [tokens[i], tokens[i]] + tokens[i + 1:]))
        if i + 1 < n:
            out.add(" ".join(tokens[:i] + [tokens[i + 1], tokens[i]] + tokens[i + 2:]))
    extra = {"einsum": ["take (A[m], 0)", "Z[m] = A[m] +", "Z[m] = * A[m]", "Z[m] = take(A[m])", "Z[m] = take(A[m], B[m])", "Z[m] A[m]",
                        "Z[m] = A[m] B[m]", "Z[m] = A[2m]", "Z[m] = A[m * 2]", "Z[m] = A[- m]", "Z[m] = A[m,]", "Z[m] = A[m]]", "Z = A[m]",
                        "Z[m] = A[m] = B[m]", "Z[m] = take(A[m], B[m], i)", "Z[m] = A[2 * 3]", ""],
             "directive": ["uniform_shape (4)", "uniform_shape(4", "uniform_shape()", "uniform_occupancy(A,4)", "uniform_occupancy(4)",
                           "uniform_occupancy(A.)", "flatten(M)", "follow()", "follow(A.4)", "nway_shape(A.4)", "uniform_shape(4) x", "shape(4)",
                           "Uniform_shape(4)", "", "uniform_shape(4)uniform_shape(4)"],
             "tuple": ["(M)", "()", "(M,)", "(M K)", "M, K", "(M, K", "M K", "(M, K))", "", "(M, (K, N))", "M0 K0"],
             "stamp": ["M.position", "M.", ".coord", "M.pos.coord", "M pos", "M..pos", "M.Pos", "", "M0 K0", "M0,K0", "0M", "M-0", "M0:coord", "(M0)"],
             "level": ["PE[0..]", "PE[1..7]", "PE[0.7]", "PE[0..7", "PE0..7]", "[0..7]", "PE[0..7]]", "PE[0..N]", "PE[0 ..7]", "", "PE[0..7] x", "7PE"]}
    out.update(extra[kind])
    rec = RECS[kind]
    return sorted(s for s in out if not rec(s))


def work_items(ctx):
    items = []
    quick = ctx.quick
    fams = [("einsum", [(einsum_tokens(s), norm_struct(s)) for s in einsum_sentences(quick)]),
            ("directive", directive_sentences()), ("tuple", tuple_sentences()), ("stamp", stamp_sentences()), ("level", level_sentences())]
    stats = {}
    for kind, sents in fams:
        rec = RECS[kind]
        n0 = len(items)
        for idx, (toks, want) in enumerate(sents):
            full = kind != "einsum" or idx % (8 if quick else 1) == 0
            for seps in ws_variants(toks, full):
                items.append((kind, render(toks, seps), want))
        # near misses of a representative subset of sentences
        step = max(1, len(sents) // (300 if quick else 3000)) if kind == "einsum" else 1
        nm = set()
        for toks, _ in sents[::step]:
            nm.update(near_misses(kind, toks))
        for s in sorted(nm):
            items.append((kind, s, None))
        stats[kind] = {"sentences": len(sents), "strings": len(items) - n0 - len(nm), "near_misses": len(nm)}
        # self-check of the generator against the independent recogniser
        for toks, _ in sents[:: max(1, len(sents) // 50)]:
            assert rec(" ".join(toks)), ("generator produced a string outside the recogniser's language", kind, toks)
    return items, stats


def run(ctx):
    items, stats = work_items(ctx)
    res = pmap(check_item, items, jobs=ctx.jobs, seed=ctx.seed, chunk=400, progress="C17")
    viols = []
    for (kind, text, want), r in zip(items, res):
        if r:
            viols.append({"sig": {"kind": "near-miss-accepted" if want is None else "misparse", "grammar": kind, "problem": r[:60]},
                          "msg": "%s grammar, text %r: %s" % (kind, text, r), "case": {"kind": kind, "text": text, "want": want}})
    uniq = {}
    for v in viols:
        uniq.setdefault((v["sig"]["kind"], v["sig"]["grammar"], v["sig"]["problem"]), v)
    cov = {"evaluations": len(items), "distinct_nontrivial": len({(k, t) for k, t, _ in items}), "per_grammar": stats,
           "rule": "exhaustive derivation within the stated bounds (index-expression menu, rank lists of length 0-2, terms of <= 3 factors, "
                   "<= 3 terms, keyword-like names, every directive kind x size x leader, tuples of 1-3 names, stamps, level names) x whitespace "
                   "variants at terminal boundaries (uniform none/space/tab/mixed for all, <= 2 deviating positions for a subset) + near misses "
                   "(single-token deletion/duplication/swap and hand-written ones) that an independent recogniser places outside the language; "
                   "distinct_nontrivial = distinct strings parsed",
           "exhaustive": True, "raw_problem_count": len(viols),
           "samples": [{"grammar": k, "text": t, "expected": w} for k, t, w in items[:: max(1, len(items) // 8)]][:9]}
    return {"level": LEVEL, "coverage": cov, "violations": list(uniq.values()),
            "assumptions": ["NUMBER is instantiated with integer literals only (common.NUMBER also admits 1.5 / 1e3; not judged)",
                            "the independent recogniser decides which mutated strings are near misses"]}


def replay(ctx, case):
    want = case["want"]
    if want is not None and case["kind"] == "einsum":
        want = {"out": (want["out"][0], [[tuple(t) for t in ie] for ie in want["out"][1]]),
                "terms": [(k, [tuple([f[0], f[1]] + ([[[tuple(t) for t in ie] for ie in f[2]]] if len(f) > 2 else [])) for f in fs], sel)
                          for k, fs, sel in want["terms"]]}
    r = check_item((case["kind"], case["text"], want))
    if r:
        return [{"sig": {"kind": "near-miss-accepted" if want is None else "misparse", "grammar": case["kind"], "problem": r[:60]},
                 "msg": r, "case": case}]
    return []
