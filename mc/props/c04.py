"""C04 -- affine index expressions are evaluated exactly, with or without partitioning.

E-SPEC x E-DATA x {halo policy M, H}: affine Einsums x every legal loop order x shape stacks on the output rank with
follow() on the input rank x shape-consistent extents (W and W+1) x all presence patterns.  A pattern counts as a
violation only if it fails under BOTH halo policies (DESIGN 2.2).  Oracle: dense evaluation (none missing, none
twice) and no output coordinate outside the declared extent.
"""
import itertools
import json

from mc.core import cfgcheck
from mc.core.par import pmap
from mc.core import execspec as X
from mc.spec import build as B
from mc.spec.build import E, T, times
from mc.props.c02 import levels

LEVEL = "exploration"
STATED_REJECTS = ["Cannot project into the output tensor"]


def conv1d(a, b):
    return {"decl": {"I": ["W"], "F": ["S"], "O": ["Q"]},
            "exprs": [E("O", ["q"], times(T("I", {"q": a, "s": b}), T("F", "s")))]}


def insert_everywhere(seq, x):
    return [seq[:i] + [x] + seq[i:] for i in range(len(seq) + 1)]


def legal_orders(out_levels, extras):
    """all output levels (outer to inner, monotone) + exactly one extra loop rank, at every position"""
    res = []
    for x in extras:
        res.extend(insert_everywhere(list(out_levels), x))
    return res


def ext_1d(a, b, Q, S, wx):
    if b > 0:
        W = a * (Q - 1) + b * (S - 1) + 1 + wx
    else:
        W = a * (Q - 1) + 1 + wx
    return {"Q": Q, "S": S, "W": W}


def configs(ctx):
    quick = ctx.quick
    work = []
    coefs = [(1, 1), (2, 1), (1, 2), (2, 2), (3, 1), (1, 3)] + ([] if quick else [(3, 2), (2, 3), (3, 3), (1, -1), (2, -1)])
    stacks = [None, ["uniform_shape(2)"], ["uniform_shape(3)"], ["nway_shape(2)"], ["uniform_shape(2)", "uniform_shape(1)"],
              ["nway_shape(2)", "uniform_shape(1)"]]
    if not quick:
        stacks += [["uniform_shape(4)", "uniform_shape(2)"], ["uniform_shape(3)", "uniform_shape(2)", "uniform_shape(1)"]]
    max_cells = ctx.pick(9, 11)
    for a, b in coefs:
        base = conv1d(a, b)
        QS = [(2, 2), (3, 2), (4, 2), (3, 3), (2, 3)] + ([] if quick else [(5, 2), (4, 3), (6, 2)])
        exts = []
        for Q, S in QS:
            for wx in (0, 1):
                e = ext_1d(a, b, Q, S, wx)
                if e["W"] + e["S"] <= max_cells and e not in exts:
                    exts.append(e)
        if not exts:
            continue
        for st in stacks:
            if st is None:
                part = None
                outs = ["Q"]
                extras = ["W", "S"]
            else:
                part = {"Q": list(st), "W": ["follow(Q)"]}
                outs = levels("Q", len(st))
                extras = ["W0", "S"]
            los = [None] + legal_orders(outs, extras)
            for lo in los:
                mapping = {}
                if part:
                    mapping["partitioning"] = {"O": part}
                if lo is not None:
                    mapping["loop-order"] = {"O": lo}
                ex2 = exts
                if st and any(s.startswith("nway") or "(3)" in s or "(4)" in s for s in st):
                    ex2 = exts
                work.append({"tag": "F1d(%d,%d)/%s" % (a, b, "none" if st is None else "+".join(s.split("_")[0][0] + s[s.index("("):] for s in st)),
                             "spec": dict(base, mapping=mapping), "extents": ex2, "policies": ["M", "H"],
                             "allowed_rejects": STATED_REJECTS})
    # an additional, non-projected input co-iterated with the partitioned output rank
    for first, cq in ((False, 1), (True, 1), (False, 2)):
        fs = [T("I", {"q": cq, "s": 1}), T("G", "q"), T("F", "s")]
        if first:
            fs = [fs[1], fs[0], fs[2]]
        base = {"decl": {"I": ["W"], "F": ["S"], "G": ["Q"], "O": ["Q"]}, "exprs": [E("O", ["q"], times(*fs))]}
        exts = [{"Q": 4, "S": 2, "W": cq * 3 + 2}, {"Q": 3, "S": 2, "W": cq * 2 + 2}]
        for st in (None, ["uniform_shape(2)"]):
            part = None if st is None else {"Q": list(st), "W": ["follow(Q)"]}
            outs = ["Q"] if st is None else levels("Q", len(st))
            for lo in [None] + legal_orders(outs, ["W", "S"] if st is None else ["W0", "S"]):
                mapping = {}
                if part:
                    mapping["partitioning"] = {"O": part}
                if lo is not None:
                    mapping["loop-order"] = {"O": lo}
                work.append({"tag": "F1dG(%d,1)/%s" % (cq, "none" if st is None else "u(2)"), "spec": dict(base, mapping=mapping),
                             "extents": exts, "policies": ["M", "H"], "allowed_rejects": STATED_REJECTS})
    # three index variables, negative coefficients (low-side halos)
    for cs, cv in [(1, 1), (-1, -1), (1, -1)] + ([] if quick else [(-1, -2), (2, -1)]):
        base = {"decl": {"I": ["W"], "F": ["S"], "K": ["V"], "O": ["Q"]},
                "exprs": [E("O", ["q"], times(T("I", {"q": 1, "s": cs, "v": cv}), T("F", "s"), T("K", "v")))]}
        Q, S, V = 4, 2, 2
        W = Q + max(cs, 0) * (S - 1) + max(cv, 0) * (V - 1)
        exts = [{"Q": Q, "S": S, "V": V, "W": W}]
        for st in (None, ["uniform_shape(2)"]):
            part = None if st is None else {"Q": list(st), "W": ["follow(Q)"]}
            outs = ["Q"] if st is None else levels("Q", len(st))
            xs = ["W", "S", "V"] if st is None else ["W0", "S", "V"]
            los = [None]
            for pair in itertools.combinations(xs, 2):
                for perm in itertools.permutations(outs + list(pair)):
                    if [x for x in perm if x in outs] == outs:
                        los.append(list(perm))
            for lo in los:
                mapping = {}
                if part:
                    mapping["partitioning"] = {"O": part}
                if lo is not None:
                    mapping["loop-order"] = {"O": lo}
                work.append({"tag": "F1v3(%d,%d)/%s" % (cs, cv, "none" if st is None else "u(2)"), "spec": dict(base, mapping=mapping),
                             "extents": exts, "policies": ["M", "H"], "allowed_rejects": STATED_REJECTS})
    # four index variables in one access (linearised 2-D convolution)
    base = {"decl": {"I": ["W"], "F": ["R", "S"], "O": ["P", "Q"]},
            "exprs": [E("O", ["p", "q"], times(T("I", {"p": 3, "q": 1, "r": 3, "s": 1}), T("F", "r", "s")))]}
    exts = [{"P": 2, "Q": 2, "R": 2, "S": 1, "W": 8}, {"P": 1, "Q": 2, "R": 2, "S": 2, "W": 6}]
    for lo in (None, ["P", "Q", "R", "S"], ["R", "S", "P", "Q"], ["P", "Q", "R", "W"], ["W", "P", "R", "Q"]) if not quick else (None, ["R", "S", "P", "Q"], ["P", "Q", "R", "W"]):
        mapping = {} if lo is None else {"loop-order": {"O": lo}}
        work.append({"tag": "F4v/none", "spec": dict(base, mapping=mapping), "extents": exts, "policies": ["M", "H"],
                     "allowed_rejects": STATED_REJECTS})
    # subsampling Z[m] = A[2*m] / A[3*m]
    for c in (2, 3):
        base = {"decl": {"A": ["W"], "Z": ["M"]}, "exprs": [E("Z", ["m"], times(T("A", {"m": c})))]}
        exts = [{"M": M, "W": c * (M - 1) + 1 + wx} for M in (2, 3, 4) for wx in (0, 1) if c * (M - 1) + 1 + wx <= 10]
        for lo in (None, ["M"], ["W"]):
            mapping = {} if lo is None else {"loop-order": {"Z": lo}}
            work.append({"tag": "Fsub(%d)/none" % c, "spec": dict(base, mapping=mapping), "extents": exts, "policies": ["M", "H"],
                         "allowed_rejects": STATED_REJECTS})
        for st in (["uniform_shape(2)"], ["nway_shape(2)"]):
            for lo in (None, ["M1", "M0"]):
                mapping = {"partitioning": {"Z": {"M": st, "W": ["follow(M)"]}}}
                if lo:
                    mapping["loop-order"] = {"Z": lo}
                work.append({"tag": "Fsub(%d)/%s" % (c, st[0]), "spec": dict(base, mapping=mapping), "extents": exts,
                             "policies": ["M", "H"], "allowed_rejects": STATED_REJECTS})
    # O[p, q] = I[p + q + s] * F[s]  (three variables in one access)
    base = {"decl": {"I": ["W"], "F": ["S"], "O": ["P", "Q"]},
            "exprs": [E("O", ["p", "q"], times(T("I", {"p": 1, "q": 1, "s": 1}), T("F", "s")))]}
    exts = [{"P": 2, "Q": 2, "S": 2, "W": 4}, {"P": 2, "Q": 3, "S": 2, "W": 5}, {"P": 2, "Q": 2, "S": 2, "W": 5}]
    for outs in (["P", "Q"], ["Q", "P"]):
        for lo in [None] + legal_orders(outs, ["W", "S"]):
            mapping = {} if lo is None else {"loop-order": {"O": lo}}
            work.append({"tag": "F3v/none", "spec": dict(base, mapping=mapping), "extents": exts, "policies": ["M", "H"],
                         "allowed_rejects": STATED_REJECTS})
    # 2-D convolution O[p, q] = I[p + r, q + s] * F[r, s]
    base = {"decl": {"I": ["H", "W"], "F": ["R", "S"], "O": ["P", "Q"]},
            "exprs": [E("O", ["p", "q"], times(T("I", {"p": 1, "r": 1}, {"q": 1, "s": 1}), T("F", "r", "s")))]}
    exts = [{"P": 2, "Q": 2, "R": 1, "S": 2, "H": 2, "W": 3}, {"P": 1, "Q": 2, "R": 2, "S": 2, "H": 2, "W": 3}]
    if not quick:
        exts.append({"P": 2, "Q": 2, "R": 2, "S": 1, "H": 3, "W": 2})
    seen = set()
    for xh in ("H", "R"):
        for xw in ("W", "S"):
            for lo in itertools.permutations(["P", "Q", xh, xw]):
                if str(lo) in seen:
                    continue
                seen.add(str(lo))
                work.append({"tag": "F2d/none", "spec": dict(base, mapping={"loop-order": {"O": list(lo)}}), "extents": exts,
                             "policies": ["M", "H"], "allowed_rejects": STATED_REJECTS})
    work.append({"tag": "F2d/none", "spec": dict(base, mapping={}), "extents": exts, "policies": ["M", "H"],
                 "allowed_rejects": STATED_REJECTS})
    for st in (["uniform_shape(2)"],):
        mapping = {"partitioning": {"O": {"Q": st, "W": ["follow(Q)"]}}, "loop-order": {"O": ["Q1", "P", "R", "W0", "Q0"]}}
        work.append({"tag": "F2d/U(2)", "spec": dict(base, mapping=mapping),
                     "extents": [{"P": 1, "Q": 3, "R": 1, "S": 2, "H": 1, "W": 4}, {"P": 2, "Q": 2, "R": 1, "S": 2, "H": 2, "W": 3}],
                     "policies": ["M", "H"], "allowed_rejects": STATED_REJECTS})
    for w in work:
        w["check"] = {"check_extent": True}
    return work


RULE = ("affine Einsums (1-D convolution with coefficients a,b, subsampling, 3-variable access, 2-D convolution) x every legal "
        "loop order (all output levels in outer-to-inner order plus exactly one of {input rank, filter rank} at every position; "
        "and the default) x shape stacks on the output rank with follow() on the input rank x shape-consistent extents W and "
        "W+1 x all presence patterns x both halo policies; a pattern is a violation only if it fails under both policies; "
        "distinct_nontrivial = distinct (configuration, extents, output)")


def run(ctx):
    work = configs(ctx)
    res = pmap(cfgcheck.check_cfg, work, jobs=ctx.jobs, seed=ctx.seed, progress="C04")
    cov, viols = cfgcheck.aggregate(work, res, "C04", rule=RULE)
    ok = [(w, r) for w, r in zip(work, res) if r["status"] == "ok"]
    cov["accepted_configurations"] = len(ok)
    pp = {}
    for r in res:
        for p, k in r["per_policy"].items():
            pp[p] = pp.get(p, 0) + k
    cov["policy_specific_failures_not_reported"] = pp
    cov["samples"] = [{"tag": w["tag"], "einsum": [B.render_expr(e) for e in w["spec"]["exprs"]],
                       "mapping": w["spec"]["mapping"], "extents": w["extents"], "executions": r["n"]}
                      for w, r in ok[:: max(1, len(ok) // 5)]][:6]
    return {"level": LEVEL, "coverage": cov, "violations": viols,
            "assumptions": ["reference HiFiber model; halo partition-creation policy ambiguous, so only failures under both policies M and H are reported",
                            "emitted coordinate lambdas are executed by CPython as printed (float arithmetic for fractional coefficients)"]}


def replay(ctx, case):
    return cfgcheck.replay_cfg("C04", case)
