"""C01 -- the generated loop nest computes the Einsum for every loop order and rank order.

E-SPEC x E-DATA: every template (with operand permutations) x every loop-order permutation (plus omitted)
x every rank-order combination x Pareto-maximal extent vectors x ALL presence patterns with formal values.
"""
import itertools

from mc.core import cfgcheck
from mc.core.par import pmap
from mc.core import execspec as X
from mc.spec import universe as U

LEVEL = "exploration"


def mixed_scalar_templates():
    """sums in which only SOME terms carry a scalar variable (seed C01-7: the scalar factors of a term leaked into the
    following scalar-less term); local to C01 so that the shared universe slices of the other checks do not shift"""
    E, T, V, times = U.E, U.T, U.V, U.times
    return [("S6", E("Z", ["m"], times(V("a"), T("A", "m")), times(T("B", "m")))),
            ("S7", E("Z", ["m"], times(V("a"), T("A", "m")), times(T("B", "m")), times(V("c"), T("C", "m")))),
            # take() selecting its SCALAR operand, inside a sum: the update adds the scalar wherever the other term is present,
            # whether or not the take()'s tensors intersect there (genuine defect F19, known finding)
            ("T6", E("Z", ["m"], U.take(T("A", "m"), V("a"), T("B", "m"), sel=1), times(T("C", "m")))),
            # the same defect when the selected operand is a tensor that is already resolved at an outer loop level
            # (C[m] inside the k loop): it is added wherever the other term is present at the inner level
            ("T7", E("Z", ["m"], U.take(T("A", "k", "m"), T("B", "k"), T("C", "m"), sel=2), times(T("D", "k", "m")))),
            ("S8", E("Z", ["m"], times(V("a"), T("A", "k", "m"), T("B", "k", "m")), times(T("C", "k", "m"))))]


def configs(ctx):
    work = []
    values = ctx.pick((1, 2), (1, 2, 3))
    max_cells = ctx.pick(8, 12)
    for tag, base in list(U.templates(ctx.tier)) + mixed_scalar_templates():
        if tag == "P1ij" or (tag in ("P8b", "EW3") and ctx.quick):
            continue
        perms = U.operand_perms(base)
        if tag == "T4":
            perms = perms[:: max(1, len(perms) // 6)]
        if tag in ("P8", "S5", "P8b"):
            perms = perms[:2] + perms[-1:]
        for pi, expr in enumerate(perms):
            decl = U.decl_for([expr])
            ranks = U.expr_ranks(expr)
            tensors = list(decl)
            los = [None] + [list(p) for p in itertools.permutations(ranks)]
            ros = list(U.rank_order_choices(decl, tensors))
            if tag in ("P8", "P8b"):
                # 3-rank tensor: rank orders of A only x the other tensors as declared / fully reversed
                ros = [ro for ro in ros if all(ro.get(t) in (None, decl[t][::-1]) for t in tensors if t != "A")]
                los = [None] + [list(p) for p in itertools.permutations(ranks)][::5]
            spec0 = {"decl": decl, "exprs": [expr]}
            exts = U.pareto_extents(sorted(set(r for rs in decl.values() for r in rs)),
                                    lambda e: X.n_cells(spec0, e), values, max_cells)
            for lo in los:
                for ro in ros:
                    mapping = {}
                    if lo is not None:
                        mapping["loop-order"] = {"Z": lo}
                    if ro:
                        mapping["rank-order"] = ro
                    spec = {"decl": decl, "exprs": [expr], "mapping": mapping}
                    work.append({"tag": "%s/p%d" % (tag, pi), "spec": spec, "extents": exts})
    return work


RULE = ("every template x operand permutation x loop-order permutation (and omitted) x per-tensor rank-order "
        "permutation x Pareto-maximal extent vectors within the cell bound x all 2^cells presence patterns with "
        "formal polynomial values; distinct_nontrivial counts distinct (configuration, extents, output polynomial) "
        "with a non-empty output")


def run(ctx):
    work = configs(ctx)
    res = pmap(cfgcheck.check_cfg, work, jobs=ctx.jobs, seed=ctx.seed, progress="C01")
    cov, viols = cfgcheck.aggregate(work, res, "C01", rule=RULE)
    cov["bounds"] = {"extent_values": list(ctx.pick((1, 2), (1, 2, 3))), "max_input_cells": ctx.pick(8, 12)}
    cov["samples"] = [{"tag": w["tag"], "einsum": [__import__("mc.spec.build", fromlist=["x"]).render_expr(e) for e in w["spec"]["exprs"]],
                       "mapping": w["spec"]["mapping"], "extents": w["extents"], "executions": r["n"]}
                      for w, r in list(zip(work, res))[:: max(1, len(work) // 5)]][:6]
    return {"level": LEVEL, "coverage": cov, "violations": viols,
            "assumptions": ["reference HiFiber model (mc/model/refhifiber.py) stands in for fibertree",
                            "payload values never steer control flow (trapped at run time), so one formal execution per presence pattern covers all integer inputs"]}


def replay(ctx, case):
    return cfgcheck.replay_cfg("C01", case)
