"""C12 -- every trace the metrics dump consumes is produced during collection.

E-SPEC (compile only, metrics mode): the hardware universe of mc/spec/hw.py (all accepted architecture/binding/format
combinations) plus the repository's accelerator specifications.  Oracle: static producer/consumer cross-reference over
the emitted text (mc/analysis/xref.py): one beginCollect/endCollect pair bracketing each loop nest, every consumed trace
file produced earlier in the same Einsum's section by a registration with the same prefix, rank and type (or by an
emitted filter step; eager traces additionally need the <fiber>.trace call), every consumeTrace registered consumable,
every queried intersector model created before the loops and fed inside them.
"""
from mc.analysis import xref
from mc.core.par import pmap
from mc.spec import build as B
from mc.spec import corpus, hw

LEVEL = "exploration"


def entries(ctx):
    es = []
    for tag, spec, exts, labels in hw.configs(ctx.quick, maxb=(2 if ctx.quick else 3)):
        es.append({"tag": tag, "yaml": B.to_yaml(spec), "mode": "metrics", "labels": labels})
    es += offloop_sequencers()
    for fname, y in corpus.yaml_files():
        if "architecture" in y and "bindings" in y:
            es.append({"tag": "file:" + fname, "yaml": y, "mode": "metrics", "labels": [fname]})
    return es


def offloop_sequencers():
    """a sequencer that ALSO names a rank that is no loop rank (the unpartitioned root of a partitioned loop rank, e.g. K
    while the loops run K1/K0): the compiler accepts the binding and the dump consumes its iter trace, so the registration
    must be there too (seed C12-8).  Built with hw.config, local to C12: the shared slices of hw.configs() do not shift."""
    import copy
    es = []
    for base, out, root, levels in (("mm/shape", "Z", "K", ["K1", "K0"]), ("mm/occ", "Z", "K", ["K1", "K0"]),
                                    ("mm/shapeM", "Z", "M", ["M1", "M0"]), ("mm3j", "Z", "J", ["J1", "J0"])):
        for lv in ([levels[0]], [levels[1]]):   # the Sequencer has num_ranks 2
            spec, _ = hw.config(base, {out: ["seq:" + lv[0]]})
            spec = copy.deepcopy(spec)
            for b in spec["bindings"][out]:
                if b.get("component") == "Seq":
                    b["bindings"] = [{"rank": root}] + [{"rank": r} for r in lv]
            es.append({"tag": "%s|seqroot:%s+%s|cp" % (base, root, "+".join(lv)), "yaml": B.to_yaml(spec), "mode": "metrics",
                       "labels": ["seqroot:" + root]})
    return es


def check(e):
    out = {"status": "ok"}
    try:
        h, text = corpus.compile_entry(e)
    except (ValueError, NotImplementedError) as ex:
        return {"status": "rejected", "reject": "%s: %s" % (type(ex).__name__, " ".join(str(ex).split()[:5]))}
    except Exception as ex:
        return {"status": "crash", "reject": "%s: %s" % (type(ex).__name__, str(ex)[:50])}
    probs = xref.analyse(text)
    out["text_hash"] = hash(text)
    out["consumed"] = text.count(".csv")
    if probs:
        out["status"] = "fail"
        out["problems"] = probs
        out["text"] = text
    return out


def norm(p):
    import re
    p = re.sub(r"^line \d+: ", "", p)
    return re.sub(r"tmp/\w+", "tmp/<E>", p)


def run(ctx):
    es = entries(ctx)
    res = pmap(check, es, jobs=ctx.jobs, seed=ctx.seed, progress="C12")
    viols, rejected, crashed, texts, consumed = [], {}, {}, set(), 0
    for e, r in zip(es, res):
        if r["status"] == "rejected":
            rejected[r["reject"]] = rejected.get(r["reject"], 0) + 1
        elif r["status"] == "crash":
            crashed[r["reject"]] = crashed.get(r["reject"], 0) + 1
        else:
            texts.add(r["text_hash"])
            consumed += r["consumed"]
            if r["status"] == "fail":
                for p in r["problems"][:3]:
                    viols.append({"sig": {"kind": "xref", "problem": norm(p), "base": e["tag"].split("|")[0]},
                                  "msg": "%s: %s\n--- emitted program ---\n%s" % (e["tag"], p, r["text"]), "case": {"entry": e}})
    uniq = {}
    for v in viols:
        uniq.setdefault(B.canon(v["sig"]), v)
    cov = {"evaluations": len(es), "distinct_nontrivial": len(texts), "trace_file_references_checked": consumed,
           "stated_rejections": rejected, "compiler_crashes_not_judged_here": crashed,
           "rule": "hardware universe (base Einsum/mapping x binding combinations x formats) + accelerator files, metrics mode, compile "
                   "only; distinct_nontrivial = distinct emitted metrics-mode programs cross-referenced", "exhaustive": True,
           "samples": [{"tag": e["tag"]} for e in es[:: max(1, len(es) // 5)]][:6]}
    vs = list(uniq.values())
    if len(texts) < len(es) // 4:
        vs.insert(0, {"sig": {"kind": "vacuous"}, "msg": "fewer than a quarter of the configurations compile: %s %s" % (rejected, crashed),
                      "case": None, "no_recheck": True})
    return {"level": LEVEL, "coverage": cov, "violations": vs, "assumptions": ["static cross-reference over the emitted text"]}


def replay(ctx, case):
    e = case["entry"]
    r = check(e)
    if r["status"] == "fail":
        return [{"sig": {"kind": "xref", "problem": norm(p), "base": e["tag"].split("|")[0]}, "msg": p, "case": case} for p in r["problems"][:3]]
    return []
