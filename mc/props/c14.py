"""C14 -- execution time is the bottleneck-per-block roll-up of component times.

E-SPEC / E-HIST: (i) the single-Einsum hardware universe of mc/spec/hw.py under several instance-count / frequency /
bandwidth assignments, (ii) cascades of 2-3 Einsums over two hardware configurations with every fusion situation of C13
(same/different config, equal/different temporal prefix, shared/unshared components, memory traffic).  The emitted
program is executed with stand-in models that return a distinct prime for every count they are asked for.
Oracle (independent of the compiler, exact rationals):
  (A) metrics["time"] == sum over metrics["blocks"] of max over components of the sum over the block's Einsums of
      metrics[e][c]["time"], taken over ALL component times present in the metrics dictionary;
  (B) metrics[e][c]["time"] * rate(c) * instances(c) == the sum of the counts stored under metrics[e][c]
      (rate = clock frequency of e's configuration, or the memory's bandwidth; instances = N+1 from NAME[0..N]);
  (C) every count the stand-ins handed out while e's dump ran appears in exactly one count entry of metrics[e].
"""
import copy
import itertools
from fractions import Fraction

from mc.core import execspec as X
from mc.core.par import pmap
from mc.spec import build as B
from mc.spec import hw
from mc.spec.build import E, T, times

LEVEL = "exploration"

PRIMES = [1009, 1013, 1019, 1021, 1031]


def arch_info(architecture):
    """component -> (class, instances of its level, attributes), per config; and config -> frequency -- read from the
    generated architecture dictionary (the generator's own structure, not the compiler's parse)"""
    info, freq = {}, {}
    for cfg, roots in architecture.items():
        freq[cfg] = roots[0]["attributes"]["clock_frequency"]

        def walk(level):
            name = level["name"]
            n = 1
            if "[" in name:
                n = int(name[name.index("..") + 2:name.index("]")]) + 1
            for c in level.get("local", []):
                info[(cfg, c["name"])] = (c["class"].lower(), n, c.get("attributes", {}))
            for sub in level.get("subtree", []):
                walk(sub)
        for r in roots:
            walk(r)
    return info, freq


def single_configs(ctx):
    out = []
    insts = [("single", 3, 1), (1, "single", 7)] if ctx.quick else [("single", 3, 1), (1, "single", 7), ("single", 1, "single"), (2, "single", "single")]
    base = hw.configs(True, maxb=2)
    stride = 9 if ctx.quick else 2
    base = [b for b in base if not b[0].startswith("mm/occ|mrgx:A")]      # F16: reported by C06 / C11
    for k, (tag, spec, exts, labels) in enumerate(base[::stride]):
        for i, inst in enumerate(insts):
            s = copy.deepcopy(spec)
            s["architecture"] = hw.architecture(inst, freq=PRIMES[i], bw=521 + 2 * i)
            out.append({"tag": "%s|inst%d" % (tag, i), "spec": s, "extents": exts[0]})
    return out


def cascade_arch():
    def cfg(freq, pe, bw):
        return [{"name": "System", "attributes": {"clock_frequency": freq},
                 "local": [{"name": "Mem", "class": "DRAM", "attributes": {"bandwidth": bw}}],
                 "subtree": [{"name": "PE[0..%d]" % pe, "local": [
                     {"name": "Buf", "class": "Buffet", "attributes": {"width": 64, "depth": 128}},
                     {"name": "Mul0", "class": "compute", "attributes": {"type": "mul"}},
                     {"name": "Mul1", "class": "compute", "attributes": {"type": "mul"}},
                     {"name": "Is2", "class": "Intersector", "attributes": {"type": "two-finger"}},
                     {"name": "Seq", "class": "Sequencer", "attributes": {"num_ranks": 2}}]}]}]
    a = cfg(1009, 3, 521)
    b = cfg(1013, 1, 523)
    # component names are global in the compiler's Hardware: keep the two configurations disjoint
    for lvl in b:
        lvl["local"][0]["name"] = "MemB"
        for c in lvl["subtree"][0]["local"]:
            c["name"] += "B"
    return {"cfgA": a, "cfgB": b}


def cascade_events(quick):
    evs = []
    traffic = lambda sfx: [{"component": "Mem" + sfx, "bindings": hw.mem_bindings("B", "N", ["coord", "payload"])},
                           {"component": "Buf" + sfx, "bindings": hw.mem_bindings("B", "N", ["coord", "payload"], evict="M")}]
    for cfg, sfx in (("cfgA", ""), ("cfgB", "B")):
        sets = [[], ["Mul0"], ["Mul1"], ["Mul0", "Is2"], ["Seq", "Mul0"], ["traffic"], ["traffic", "Mul1"]]
        if cfg == "cfgB":
            sets = [["Mul0"], ["traffic", "Mul0"]]
        for sp in ((1, 2) if cfg == "cfgA" else (1,)):
            for cs in sets:
                if quick and sp == 2 and cs not in ([], ["Mul0"]):
                    continue
                b = []
                for c in cs:
                    if c == "traffic":
                        b += traffic(sfx)
                    elif c.startswith("Mul"):
                        b.append({"component": c + sfx, "bindings": [{"op": "mul"}]})
                    elif c == "Is2":
                        b.append({"component": "Is2" + sfx, "bindings": [{"rank": "K"}]})
                    elif c == "Seq":
                        b.append({"component": "Seq" + sfx, "bindings": [{"rank": "M"}, {"rank": "K"}]})
                evs.append({"cfg": cfg, "sp": sp, "comps": cs, "bindings": b})
    return evs


NAMES = ["T", "P", "Z"]


def cascade_spec(hist):
    decl = {"A": ["K", "M"], "B": ["K", "N"]}
    exprs, lo, st, bind = [], {}, {}, {}
    order = ["M", "K", "N"]
    for i, ev in enumerate(hist):
        o = NAMES[i]
        decl[o] = ["M", "N"]
        exprs.append(E(o, ["m", "n"], times(T("A", "k", "m"), T("B", "k", "n"))))
        lo[o] = list(order)
        st[o] = {"space": order[ev["sp"]:], "time": order[:ev["sp"]]}
        bind[o] = [{"config": ev["cfg"], "prefix": "tmp/" + o}] + copy.deepcopy(ev["bindings"])
    fm = {"A": hw.fmt_for(["M", "K"]), "B": hw.fmt_for(["K", "N"])}
    for i in range(len(hist)):
        fm[NAMES[i]] = hw.fmt_for(["M", "N"])
    return {"decl": decl, "exprs": exprs, "mapping": {"loop-order": lo, "spacetime": st},
            "architecture": cascade_arch(), "bindings": bind, "format": fm}


def cascade_configs(ctx):
    evs = cascade_events(ctx.quick)
    out = []
    for n in ((2,) if ctx.quick else (2, 3)):
        for h in itertools.product(evs, repeat=n):
            if n == 3 and ctx.quick:
                continue
            out.append({"tag": "cascade|" + "/".join("%s.%d.%s" % (e["cfg"], e["sp"], "+".join(e["comps"]) or "-") for e in h),
                        "spec": cascade_spec(h), "extents": {"K": 2, "M": 2, "N": 2}})
    if ctx.quick:
        small = [e for e in evs if e["comps"] in ([], ["Mul0"], ["Mul1"], ["traffic"], ["traffic", "Mul0"], ["traffic", "Mul1"]) and e["sp"] == 1]
        for h in itertools.product(small, repeat=3):
            out.append({"tag": "cascade|" + "/".join("%s.%d.%s" % (e["cfg"], e["sp"], "+".join(e["comps"]) or "-") for e in h),
                        "spec": cascade_spec(h), "extents": {"K": 2, "M": 2, "N": 2}})
    return out


def leaves(d, path=()):
    for k, v in d.items():
        if isinstance(v, dict):
            yield from leaves(v, path + (k,))
        else:
            yield path + (k,), v


def subset_sum(target, pool):
    """the unique subset of distinct primes summing to target (small pools), or None"""
    pool = sorted(pool)
    res = []

    def rec(i, rem, acc):
        if rem == 0:
            res.append(list(acc))
            return
        if i == len(pool) or rem < 0 or len(res) > 1:
            return
        rec(i + 1, rem - pool[i], acc + [pool[i]])
        rec(i + 1, rem, acc)
    rec(0, target, [])
    return res[0] if len(res) == 1 else (None if not res else "ambiguous")


def check(cfg):
    spec = cfg["spec"]
    out = {"status": "ok", "components": 0, "blocks": None}
    try:
        text = str(B.compile_spec(spec, "metrics"))
    except (ValueError, NotImplementedError) as e:
        return {"status": "rejected", "reject": "%s: %s" % (type(e).__name__, " ".join(str(e).split()[:5]))}
    except Exception as e:
        return {"status": "crash", "reject": "%s: %s" % (type(e).__name__, str(e)[:50])}
    ext = cfg["extents"]
    cells = X.cell_list(spec, ext)
    ins = X.inputs_of_mask(spec, cells, (1 << len(cells)) - 1)
    r = X.run_case(X.compile_code(text), spec, ext, ins, standins=True, keep_env=True, check_values=False, check_extent=False)
    if not r.ok:
        return {"status": "fail", "kind": "execution", "msg": "%s: %s" % (r.kind, r.msg), "text": text}
    m = r.env.get("metrics")
    w = r.world
    if not isinstance(m, dict) or "time" not in m or "blocks" not in m:
        return {"status": "fail", "kind": "no-metrics", "msg": "metrics dictionary incomplete: %r" % (m,), "text": text}
    info, freq = arch_info(spec["architecture"])
    einsums = [e["out"][0] for e in spec["exprs"]]
    config_of = {o: spec["bindings"][o][0]["config"] for o in einsums}
    out["blocks"] = m["blocks"]
    # (A) roll-up
    total = Fraction(0)
    flat = [e for b in m["blocks"] for e in b]
    if sorted(flat) != sorted(einsums):
        return {"status": "fail", "kind": "blocks", "msg": "metrics['blocks'] = %r does not list the Einsums %r" % (m["blocks"], einsums), "text": text}
    ntimes = 0
    for block in m["blocks"]:
        per = {}
        for e in block:
            for c, d in m[e].items():
                if isinstance(d, dict) and "time" in d:
                    per[c] = per.get(c, Fraction(0)) + Fraction(d["time"])
                    ntimes += 1
        total += max(per.values()) if per else 0
    if abs(float(total) - float(m["time"])) > 1e-9 * max(1.0, abs(float(total))):
        return {"status": "fail", "kind": "rollup", "msg": "metrics['time'] = %r, bottleneck-per-block roll-up of the component times is %r (blocks %r, metrics %r)"
                % (m["time"], float(total), m["blocks"], {e: m[e] for e in einsums}), "text": text}
    out["components"] = ntimes
    # (B) each component time, (C) each handed-out count used exactly once
    for e in einsums:
        handed = {v for k, v in w.values.items() if _belongs(k, "tmp/" + e)}
        used = []
        for c, d in m[e].items():
            if not isinstance(d, dict):
                continue
            key = (config_of[e], c)
            if key not in info:
                return {"status": "fail", "kind": "unknown-component", "msg": "metrics[%r] has entry %r which is no component of %s" % (e, c, config_of[e]), "text": text}
            cls, inst, attrs = info[key]
            counts = [(p, v) for p, v in leaves(d) if p[-1] != "time"]
            if "time" not in d:
                if counts:
                    return {"status": "fail", "kind": "untimed", "msg": "metrics[%r][%r] = %r has counts but no time" % (e, c, d), "text": text}
                continue
            rate = attrs.get("bandwidth") if cls in ("dram", "buffet", "cache") else freq[config_of[e]]
            want = Fraction(sum(v for _, v in counts), rate * inst)
            if abs(float(want) - float(d["time"])) > 1e-9 * max(1.0, float(want)):
                return {"status": "fail", "kind": "component-time",
                        "msg": "metrics[%r][%r]['time'] = %r but counts %r / (rate %r x %d instance(s)) = %r"
                               % (e, c, d["time"], counts, rate, inst, float(want)), "text": text}
            for p, v in counts:
                used.append((c, p, v))
        pool = set(handed)
        for c, p, v in used:
            sub = subset_sum(v, pool) if v else []
            if sub is None or sub == "ambiguous":
                return {"status": "fail", "kind": "count-origin", "msg": "metrics[%r][%r]%r = %r is not a sum of counts the models returned once each (available %r)"
                        % (e, c, p, v, sorted(pool)), "text": text}
            pool -= set(sub)
        if pool:
            lost = {k: v for k, v in w.values.items() if v in pool}
            return {"status": "fail", "kind": "count-lost", "msg": "counts the dump of %r asked the models for never reach metrics[%r]: %r" % (e, e, lost), "text": text}
    out["text_hash"] = hash(text)
    return out


def _belongs(key, prefix):
    if key[0] in ("dump", "traffic", "numSwaps", "isect"):
        return key[1] == prefix
    if key[0] == "numIters":
        return key[1].startswith(prefix + "-")
    return False


def sig_of(cfg, r):
    return {"kind": r["kind"], "base": cfg["tag"].split("|")[0], "detail": cfg["tag"].split("|")[1] if r["kind"] != "execution" else ""}


def run(ctx):
    work = single_configs(ctx) + cascade_configs(ctx)
    res = pmap(check, work, jobs=ctx.jobs, seed=ctx.seed, progress="C14")
    viols, rejected, crashed, texts, comps, shapes = [], {}, {}, set(), 0, set()
    for cfg, r in zip(work, res):
        if r["status"] == "rejected":
            rejected[r["reject"]] = rejected.get(r["reject"], 0) + 1
        elif r["status"] == "crash":
            crashed[r["reject"]] = crashed.get(r["reject"], 0) + 1
        elif r["status"] == "fail":
            viols.append({"sig": sig_of(cfg, r), "msg": "%s [%s]\n%s\n--- emitted program ---\n%s" % (r["kind"], cfg["tag"], r["msg"], r.get("text")),
                          "case": {"cfg": cfg}})
        else:
            texts.add(r["text_hash"])
            comps += r["components"]
            shapes.add(tuple(len(b) for b in r["blocks"]))
    uniq = {}
    for v in viols:
        uniq.setdefault((v["sig"]["kind"], v["sig"]["base"]), v)
    cov = {"evaluations": len(work), "distinct_nontrivial": len(texts), "component_times_checked": comps,
           "distinct_block_shapes": sorted(map(list, shapes)), "stated_rejections": rejected, "compiler_crashes_not_judged_here": crashed,
           "rule": "single-Einsum hardware universe x instance/frequency assignments + all cascades of 2(-3) Einsum events over two hardware "
                   "configurations; executed with prime-valued stand-ins; distinct_nontrivial = distinct emitted programs whose metrics dictionary "
                   "was checked", "exhaustive": True,
           "samples": [{"tag": w["tag"]} for w in work[:: max(1, len(work) // 5)]][:6]}
    vs = list(uniq.values())
    if len(texts) < len(work) // 4:
        vs.insert(0, {"sig": {"kind": "vacuous"}, "msg": "fewer than a quarter of the configurations compile: %s %s" % (rejected, crashed),
                      "case": None, "no_recheck": True})
    return {"level": LEVEL, "coverage": cov, "violations": vs,
            "assumptions": ["stand-in models hand out distinct primes; float division in the emitted text compared with exact rationals at 1e-9 relative tolerance",
                            "instances of a component = N+1 of its own level name NAME[0..N]"]}


def replay(ctx, case):
    cfg = case["cfg"]
    r = check(cfg)
    if r["status"] == "fail":
        return [{"sig": sig_of(cfg, r), "msg": r["msg"], "case": case}]
    return []
