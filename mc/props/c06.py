"""C06 -- every emitted program is valid, closed Python.

E-SPEC (compile only): the union of the universes of the executing checks and the repository's example specifications,
in plain / graphics / metrics mode.  Oracle: ast.parse + flow-sensitive definite-assignment analysis
(mc/analysis/closure.py) with the user-supplied name set computed from the raw specification alone.
"""
from mc.analysis import closure
from mc.core.par import pmap
from mc.spec import corpus

LEVEL = "exploration"


def check_entry(e):
    out = {"status": "ok", "problems": [], "text": None}
    try:
        h, text = corpus.compile_entry(e)
    except Exception as ex:
        out["status"] = "rejected"
        out["reject"] = "%s: %s" % (type(ex).__name__, str(ex)[:80])
        return out
    supplied = closure.supplied_from_yaml(e["yaml"])
    err, probs = closure.analyse(text, supplied)
    out["nlines"] = text.count("\n") + 1
    out["text_hash"] = hash(text)
    if err:
        out["status"] = "fail"
        out["problems"] = [("<syntax>", 0, err, "")]
        out["text"] = text
    elif probs:
        out["status"] = "fail"
        out["problems"] = [(p.name, p.lineno, p.why, p.site) for p in probs]
        out["text"] = text
    return out


def run(ctx):
    es = corpus.entries(ctx)
    res = pmap(check_entry, es, jobs=ctx.jobs, seed=ctx.seed, progress="C06")
    viols, texts, rejected, nlines = [], set(), {}, 0
    modes = {}
    for e, r in zip(es, res):
        modes[e["mode"]] = modes.get(e["mode"], 0) + 1
        if r["status"] == "rejected":
            rejected[r["reject"]] = rejected.get(r["reject"], 0) + 1
            continue
        texts.add(r["text_hash"])
        nlines += r["nlines"]
        if r["status"] == "fail":
            seen = set()
            for name, line, why, site in r["problems"]:
                k = (name, site)
                if k in seen:
                    continue
                seen.add(k)
                viols.append({
                    "sig": {"kind": "syntax" if name == "<syntax>" else "unbound", "name": name, "site": site,
                            "tag": e["tag"].split("/")[0], "mode": e["mode"],
                            "flat": closure.is_flattened_name(name, [r for rs in e["yaml"]["einsum"]["declaration"].values() for r in rs]),
                            "einsum": e["yaml"]["einsum"]["expressions"]},
                    "msg": "%s: %s at line %d%s: %s\nmapping: %s\n--- emitted program ---\n%s"
                           % (e["tag"], name, line, (" inside " + site) if site else "", why, e["yaml"].get("mapping"), r["text"]),
                    "case": {"entry": e}})
    # one violation per (template, name, site) is enough to report
    uniq = {}
    for v in viols:
        k = (v["sig"]["tag"], v["sig"]["name"], v["sig"]["site"], v["sig"]["kind"])
        uniq.setdefault(k, v)
    accepted = len(es) - sum(rejected.values())
    cov = {"evaluations": len(es), "distinct_nontrivial": len(texts), "accepted_compilations": accepted,
           "rule": "compile-only corpus: C01-C05 universes, C11/C16 universes when present, repository example specifications; "
                   "every applicable mode; distinct_nontrivial = distinct emitted texts analysed",
           "by_mode": modes, "emitted_lines_analysed": nlines, "compile_rejections": rejected, "exhaustive": True,
           "raw_problem_count": len(viols),
           "samples": [{"tag": e["tag"], "mode": e["mode"], "einsum": e["yaml"]["einsum"]["expressions"],
                        "mapping": e["yaml"].get("mapping")} for e in es[:: max(1, len(es) // 4)]][:5]}
    return {"level": LEVEL, "coverage": cov, "violations": list(uniq.values()),
            "assumptions": ["loops may execute zero times; lambdas are analysed at their point of definition",
                            "user-supplied names are derived from the raw specification by an independent regex-level reader"]}


def replay(ctx, case):
    r = check_entry(case["entry"])
    out = []
    e = case["entry"]
    for name, line, why, site in r["problems"]:
        out.append({"sig": {"kind": "syntax" if name == "<syntax>" else "unbound", "name": name, "site": site,
                            "tag": e["tag"].split("/")[0], "mode": e["mode"],
                            "flat": closure.is_flattened_name(name, [r for rs in e["yaml"]["einsum"]["declaration"].values() for r in rs]),
                            "einsum": e["yaml"]["einsum"]["expressions"]},
                    "msg": "%s at line %d: %s" % (name, line, why), "case": case})
    return out
