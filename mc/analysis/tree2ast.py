"""Structural comparison of the HiFiber tree the translator built with Python's own parse of the printed text (C09).

Both sides are converted to one normal form (nested tuples).  Normalisation, and nothing else:
  * chains of ONE associative operator (+ * & |) are flattened (re-association allowed by the property);
  * explicit parenthesis nodes are transparent;
  * negative numeric literals: EInt(-1) == UnaryOp(USub, 1).
'<<', '-', '/', '//', '%', comparisons are never re-associated.
"""
import ast

from teaal.hifiber import *  # noqa: F401,F403
from teaal.hifiber import (AAccess, AField, AJust, AParam, AVar, EAccess, EBinOp, EBool, EComp, EDict, EField, EFloat, EFunc,
                           EInt, ELambda, EList, EMethod, EParens, EString, ETuple, EVar, PTuple, PVar, SAssign, SBlock,
                           SExpr, SFor, SFunc, SIAssign, SIf, SReturn)
from teaal.hifiber.op import (OAdd, OAnd, ODiv, OEqEq, OFDiv, OIn, OLt, OLtLt, OMod, OMul, ONotIn, OOr, OSub)

ASSOC = {"+", "*", "&", "|"}
CMP = {"==", "<", "in", "not in"}


class Unsupported(Exception):
    pass


def chain(op, l, r):
    if op in ASSOC:
        items = []
        for x in (l, r):
            if isinstance(x, tuple) and x[0] == "chain" and x[1] == op:
                items.extend(x[2])
            else:
                items.append(x)
        return ("chain", op, tuple(items))
    if op in CMP:
        return ("cmp", op, l, r)
    return ("bin", op, l, r)


def dotted(name):
    parts = name.split(".")
    node = ("name", parts[0])
    for p in parts[1:]:
        node = ("attr", node, p)
    return node


def num(v):
    if isinstance(v, bool):
        return ("const", v)
    return ("num", v)


# ------------------------------------------------------------------ HiFiber tree -> normal form

def args_of(args):
    pos, kw = [], []
    for a in args:
        if isinstance(a, AJust):
            if kw:
                raise Unsupported("positional argument after keyword argument")
            pos.append(expr_of(a.expr))
        elif isinstance(a, AParam):
            kw.append((a.name, expr_of(a.expr)))
        else:
            raise Unsupported("argument " + type(a).__name__)
    return tuple(pos), tuple(kw)


def expr_of(e):
    if isinstance(e, EParens):
        return expr_of(e.expr)
    if isinstance(e, EVar):
        return dotted(e.name)
    if isinstance(e, EInt):
        return num(e.int)
    if isinstance(e, EFloat):
        if e.float == float("inf"):
            return ("call", ("name", "float"), (("str", "inf"),), ())
        if e.float == -float("inf"):
            return ("neg", ("call", ("name", "float"), (("str", "inf"),), ()))
        return num(e.float)
    if isinstance(e, EBool):
        return ("const", e.bool)
    if isinstance(e, EString):
        return ("str", e.string)
    if isinstance(e, EBinOp):
        return chain(e.op.gen(), expr_of(e.expr1), expr_of(e.expr2))
    if isinstance(e, EAccess):
        return ("sub", expr_of(e.obj), expr_of(e.ind))
    if isinstance(e, EField):
        return ("attr", dotted(e.obj), e.field)
    if isinstance(e, ETuple):
        return ("tuple", tuple(expr_of(x) for x in e.elems))
    if isinstance(e, EList):
        return ("list", tuple(expr_of(x) for x in e.list))
    if isinstance(e, EDict):
        return ("dict", tuple((expr_of(k), expr_of(v)) for k, v in e.dict.items()))
    if isinstance(e, EComp):
        return ("comp", expr_of(e.elem), ("name", e.var), expr_of(e.iter))
    if isinstance(e, ELambda):
        return ("lambda", tuple(e.args), expr_of(e.body))
    if isinstance(e, EFunc):
        pos, kw = args_of(e.args)
        return ("call", dotted(e.name), pos, kw)
    if isinstance(e, EMethod):
        pos, kw = args_of(e.args)
        return ("call", ("attr", expr_of(e.obj), e.name), pos, kw)
    raise Unsupported("expression " + type(e).__name__)


def payload_of(p):
    if isinstance(p, PVar):
        return dotted(p.var)
    if isinstance(p, PTuple):
        return ("tuple", tuple(payload_of(x) for x in p.payloads))
    raise Unsupported("payload " + type(p).__name__)


def assn_of(a):
    if isinstance(a, AVar):
        return dotted(a.name)
    if isinstance(a, AAccess):
        return ("sub", expr_of(a.obj), expr_of(a.ind))
    if isinstance(a, AField):
        return ("attr", dotted(a.obj), a.field)
    raise Unsupported("assignable " + type(a).__name__)


def stmts_of(s):
    """list of normal-form statements (SBlocks flattened)"""
    if isinstance(s, SBlock):
        out = []
        for x in s.stmts:
            out.extend(stmts_of(x))
        return out
    if isinstance(s, SAssign):
        return [("assign", assn_of(s.assn), expr_of(s.expr))]
    if isinstance(s, SIAssign):
        return [("aug", s.op.gen(), assn_of(s.assn), expr_of(s.expr))]
    if isinstance(s, SExpr):
        return [("expr", expr_of(s.expr))]
    if isinstance(s, SFor):
        return [("for", payload_of(s.payload), expr_of(s.expr), tuple(stmts_of(s.stmt)))]
    if isinstance(s, SIf):
        node = tuple(stmts_of(s.else_)) if s.else_ is not None else ()
        for cond, body in reversed(s.elifs):
            node = (("if", expr_of(cond), tuple(stmts_of(body)), node),)
        return [("if", expr_of(s.if_[0]), tuple(stmts_of(s.if_[1])), node)]
    if isinstance(s, SFunc):
        return [("def", s.name, tuple(a.name for a in s.args), tuple(stmts_of(s.body)))]
    if isinstance(s, SReturn):
        return [("return", expr_of(s.expr))]
    raise Unsupported("statement " + type(s).__name__)


# ------------------------------------------------------------------ Python AST -> normal form

BINOPS = {ast.Add: "+", ast.Sub: "-", ast.Mult: "*", ast.Div: "/", ast.FloorDiv: "//", ast.Mod: "%", ast.LShift: "<<",
          ast.BitAnd: "&", ast.BitOr: "|"}
CMPOPS = {ast.Eq: "==", ast.Lt: "<", ast.In: "in", ast.NotIn: "not in"}


def py_expr(n):
    if isinstance(n, ast.Name):
        return ("name", n.id)
    if isinstance(n, ast.Constant):
        if isinstance(n.value, bool):
            return ("const", n.value)
        if isinstance(n.value, (int, float)):
            return num(n.value)
        if isinstance(n.value, str):
            return ("str", n.value)
        if n.value is None:
            return ("name", "None")
        raise Unsupported("constant %r" % (n.value,))
    if isinstance(n, ast.UnaryOp) and isinstance(n.op, ast.USub):
        inner = py_expr(n.operand)
        if inner[0] == "num":
            return num(-inner[1])
        return ("neg", inner)
    if isinstance(n, ast.BinOp):
        op = BINOPS.get(type(n.op))
        if op is None:
            raise Unsupported("operator " + type(n.op).__name__)
        return chain(op, py_expr(n.left), py_expr(n.right))
    if isinstance(n, ast.Compare):
        if len(n.ops) != 1:
            return ("chained-compare", ast.dump(n))
        op = CMPOPS.get(type(n.ops[0]))
        if op is None:
            raise Unsupported("comparison " + type(n.ops[0]).__name__)
        return ("cmp", op, py_expr(n.left), py_expr(n.comparators[0]))
    if isinstance(n, ast.Subscript):
        return ("sub", py_expr(n.value), py_expr(n.slice))
    if isinstance(n, ast.Attribute):
        return ("attr", py_expr(n.value), n.attr)
    if isinstance(n, ast.Tuple):
        return ("tuple", tuple(py_expr(x) for x in n.elts))
    if isinstance(n, ast.List):
        return ("list", tuple(py_expr(x) for x in n.elts))
    if isinstance(n, ast.Dict):
        return ("dict", tuple((py_expr(k), py_expr(v)) for k, v in zip(n.keys, n.values)))
    if isinstance(n, ast.ListComp):
        if len(n.generators) != 1 or n.generators[0].ifs:
            raise Unsupported("comprehension shape")
        g = n.generators[0]
        return ("comp", py_expr(n.elt), py_expr(g.target), py_expr(g.iter))
    if isinstance(n, ast.Lambda):
        a = n.args
        if a.vararg or a.kwarg or a.kwonlyargs or a.defaults or a.posonlyargs:
            raise Unsupported("lambda signature")
        return ("lambda", tuple(x.arg for x in a.args), py_expr(n.body))
    if isinstance(n, ast.Call):
        pos = tuple(py_expr(x) for x in n.args)
        kw = tuple((k.arg, py_expr(k.value)) for k in n.keywords)
        return ("call", py_expr(n.func), pos, kw)
    raise Unsupported("python expression " + type(n).__name__)


def py_stmts(body):
    out = []
    for s in body:
        if isinstance(s, ast.Assign):
            if len(s.targets) != 1:
                raise Unsupported("multiple assignment targets")
            out.append(("assign", py_expr(s.targets[0]), py_expr(s.value)))
        elif isinstance(s, ast.AugAssign):
            out.append(("aug", BINOPS[type(s.op)], py_expr(s.target), py_expr(s.value)))
        elif isinstance(s, ast.Expr):
            out.append(("expr", py_expr(s.value)))
        elif isinstance(s, ast.For):
            if s.orelse:
                raise Unsupported("for/else")
            out.append(("for", py_expr(s.target), py_expr(s.iter), tuple(py_stmts(s.body))))
        elif isinstance(s, ast.If):
            out.append(("if", py_expr(s.test), tuple(py_stmts(s.body)), tuple(py_stmts(s.orelse))))
        elif isinstance(s, ast.FunctionDef):
            out.append(("def", s.name, tuple(a.arg for a in s.args.args), tuple(py_stmts(s.body))))
        elif isinstance(s, ast.Return):
            out.append(("return", py_expr(s.value)))
        else:
            raise Unsupported("python statement " + type(s).__name__)
    return out


# ------------------------------------------------------------------ comparison

def first_diff(a, b, path="program"):
    if type(a) is not type(b):
        return "%s: %r  vs  %r" % (path, a, b)
    if isinstance(a, (tuple, list)):
        if len(a) != len(b):
            return "%s: %d vs %d elements: %r  vs  %r" % (path, len(a), len(b), short(a), short(b))
        for i, (x, y) in enumerate(zip(a, b)):
            d = first_diff(x, y, "%s[%s]" % (path, x if isinstance(x, str) and i == 0 else i))
            if d:
                return d
        return None
    if a != b or (isinstance(a, float) != isinstance(b, float)):
        return "%s: %r  vs  %r" % (path, a, b)
    return None


def short(x, n=300):
    s = repr(x)
    return s if len(s) <= n else s[:n] + "..."


def compare(tree, text):
    """tree: HiFiber Statement; text: printed program.  Returns None or a description of the first difference
    (built tree  vs  parsed text)."""
    try:
        built = stmts_of(tree)
    except Unsupported as e:
        return "cannot convert the HiFiber tree: %s" % e
    try:
        parsed = py_stmts(ast.parse(text).body)
    except SyntaxError as e:
        return "printed text is not valid Python: %s (line %s)" % (e.msg, e.lineno)
    except Unsupported as e:
        return "printed text uses an unexpected construct: %s" % e
    return first_diff(built, parsed)


def compare_expr(expr, text):
    try:
        built = expr_of(expr)
        parsed = py_expr(ast.parse(text, mode="eval").body)
    except SyntaxError as e:
        return "printed text is not valid Python: %s" % e.msg
    except Unsupported as e:
        return "unsupported: %s" % e
    return first_diff(built, parsed, "expr")
