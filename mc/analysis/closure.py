"""Flow-sensitive definite-assignment analysis of emitted programs (oracle of C06, also used by C08/C10).

A read of a name is *closed* when the name is bound on every path reaching the read or belongs to the user-supplied
set.  Loops may execute zero times (names bound only in a loop body are not definitely bound after it); loop targets
are visible only inside their loop; a lambda's free names must be bound where the lambda is written.
"""
import ast
import re

BUILTINS = {"enumerate", "len", "int", "min", "max", "set", "float", "None", "True", "False"}
API = {"Tensor", "Fiber", "Metrics", "Traffic", "Compute", "Format", "createCanvas", "displayCanvas",
       "LeaderFollowerIntersector", "SkipAheadIntersector", "TwoFingerIntersector"}


class Problem:
    def __init__(self, name, lineno, why, site=""):
        self.name, self.lineno, self.why, self.site = name, lineno, why, site

    def __repr__(self):
        return "%s (line %d%s): %s" % (self.name, self.lineno, (", inside " + self.site) if self.site else "", self.why)


class Analyzer:
    def __init__(self, supplied):
        self.supplied = set(supplied) | BUILTINS | API
        self.problems = []
        self.loop_targets_dead = {}
        self.calls = []

    # ---- expressions
    def read(self, node, bound):
        if node is None:
            return
        if isinstance(node, ast.Name):
            if node.id not in bound and node.id not in self.supplied:
                why = "read but not bound on every path"
                if node.id in self.loop_targets_dead:
                    why = "loop variable of the loop at line %d used outside that loop" % self.loop_targets_dead[node.id]
                self.problems.append(Problem(node.id, node.lineno, why, "/".join(self.calls)))
            return
        if isinstance(node, ast.Call):
            f = node.func
            self.read(f, bound)
            self.calls.append(f.attr if isinstance(f, ast.Attribute) else (f.id if isinstance(f, ast.Name) else "?"))
            for a in node.args:
                self.read(a, bound)
            for k in node.keywords:
                self.read(k.value, bound)
            self.calls.pop()
            return
        if isinstance(node, ast.Lambda):
            inner = set(bound)
            a = node.args
            for arg in a.posonlyargs + a.args + a.kwonlyargs:
                inner.add(arg.arg)
            if a.vararg:
                inner.add(a.vararg.arg)
            if a.kwarg:
                inner.add(a.kwarg.arg)
            for d in a.defaults + [d for d in a.kw_defaults if d is not None]:
                self.read(d, bound)
            self.read(node.body, inner)
            return
        if isinstance(node, (ast.ListComp, ast.SetComp, ast.GeneratorExp, ast.DictComp)):
            inner = set(bound)
            for gen in node.generators:
                self.read(gen.iter, inner)
                self.bind_target(gen.target, inner)
                for cond in gen.ifs:
                    self.read(cond, inner)
            if isinstance(node, ast.DictComp):
                self.read(node.key, inner)
                self.read(node.value, inner)
            else:
                self.read(node.elt, inner)
            return
        if isinstance(node, ast.NamedExpr):
            self.read(node.value, bound)
            bound.add(node.target.id)
            return
        for child in ast.iter_child_nodes(node):
            if isinstance(child, (ast.expr_context, ast.operator, ast.cmpop, ast.boolop, ast.unaryop)):
                continue
            if isinstance(child, ast.keyword):
                self.read(child.value, bound)
            else:
                self.read(child, bound)

    def bind_target(self, t, bound):
        if isinstance(t, ast.Name):
            bound.add(t.id)
        elif isinstance(t, (ast.Tuple, ast.List)):
            for e in t.elts:
                self.bind_target(e, bound)
        elif isinstance(t, ast.Starred):
            self.bind_target(t.value, bound)
        elif isinstance(t, (ast.Subscript, ast.Attribute)):
            self.read(t.value, bound)
            if isinstance(t, ast.Subscript):
                self.read(t.slice, bound)
        else:
            self.problems.append(Problem("<target>", getattr(t, "lineno", 0), "unsupported assignment target " + type(t).__name__))

    def target_names(self, t, out):
        if isinstance(t, ast.Name):
            out.add(t.id)
        elif isinstance(t, (ast.Tuple, ast.List)):
            for e in t.elts:
                self.target_names(e, out)
        return out

    # ---- statements
    def block(self, stmts, bound):
        for s in stmts:
            bound = self.stmt(s, bound)
        return bound

    def stmt(self, s, bound):
        if isinstance(s, ast.Assign):
            self.read(s.value, bound)
            bound = set(bound)
            for t in s.targets:
                self.bind_target(t, bound)
            return bound
        if isinstance(s, ast.AugAssign):
            self.read(s.value, bound)
            if isinstance(s.target, ast.Name):
                self.read(ast.copy_location(ast.Name(id=s.target.id, ctx=ast.Load()), s.target), bound)
                return set(bound) | {s.target.id}
            self.bind_target(s.target, set(bound))
            return bound
        if isinstance(s, ast.Expr):
            self.read(s.value, bound)
            return bound
        if isinstance(s, ast.If):
            self.read(s.test, bound)
            b1 = self.block(s.body, set(bound))
            b2 = self.block(s.orelse, set(bound)) if s.orelse else set(bound)
            return b1 & b2
        if isinstance(s, ast.For):
            self.read(s.iter, bound)
            inner = set(bound)
            self.bind_target(s.target, inner)
            self.block(s.body, inner)
            if s.orelse:
                self.problems.append(Problem("<for-else>", s.lineno, "unexpected for/else"))
            for n in self.target_names(s.target, set()):
                if n not in bound:
                    self.loop_targets_dead[n] = s.lineno
            return set(bound)
        if isinstance(s, ast.Pass):
            return bound
        self.problems.append(Problem("<stmt>", s.lineno, "unexpected statement kind " + type(s).__name__))
        return bound


def analyse(text, supplied):
    """returns (syntax error or None, [Problem])"""
    try:
        tree = ast.parse(text)
    except SyntaxError as e:
        return "%s (line %s)" % (e.msg, e.lineno), []
    a = Analyzer(supplied)
    a.block(tree.body, set())
    return None, a.problems


# ---------------------------------------------------------------- user-supplied names from the specification alone

_SIZE = re.compile(r"^\s*(uniform_shape|nway_shape|uniform_occupancy)\(\s*(?:[A-Za-z_]\w*\s*\.\s*)?([A-Za-z_]\w*)\s*\)\s*$")


def supplied_from_yaml(y):
    """independent, regex-level reading of a raw specification dictionary"""
    decl = y["einsum"]["declaration"]
    ro = ((y.get("mapping") or {}).get("rank-order")) or {}
    names = set()
    for rs in decl.values():
        names.update(rs)
    written = set()
    for expr in y["einsum"]["expressions"]:
        lhs, rhs = expr.split("=", 1)
        out = lhs.split("[")[0].strip()
        tensors = re.findall(r"\b([A-Za-z_]\w*)\s*\[", rhs)
        for t in tensors:
            if t not in written:
                names.add(t + "_" + "".join(ro.get(t, decl[t])))
        # bare names in the term structure (scalars): strip tensor accesses, take(...) wrapper and numbers
        bare = re.sub(r"\b[A-Za-z_]\w*\s*\[[^\]]*\]", " ", rhs)
        bare = bare.replace("take(", " ").replace(")", " ")
        for tok in re.findall(r"\b[A-Za-z_]\w*\b", bare):
            names.add(tok)
        written.add(out)
    part = ((y.get("mapping") or {}).get("partitioning")) or {}
    for per in part.values():
        for stack in (per or {}).values():
            for p in stack:
                m = _SIZE.match(p)
                if m:
                    names.add(m.group(2))
    return names


def is_flattened_name(name, ranks):
    """True if `name` is the lower-cased name of a flattened rank: a concatenation of >= 2 declared rank names, each
    optionally followed by partition-level digits (km, mk0, mk01, jkm)"""
    up = name.upper()
    rs = sorted({r.upper() for r in ranks}, key=len, reverse=True)

    def seg(i, n):
        if i == len(up):
            return n >= 2
        for r in rs:
            if up.startswith(r, i):
                j = i + len(r)
                while True:
                    if seg(j, n + 1):
                        return True
                    if j < len(up) and up[j].isdigit():
                        j += 1
                    else:
                        break
        return False
    return name == name.lower() and seg(0, 0)
