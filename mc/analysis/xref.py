"""Producer/consumer cross-reference of trace names over the emitted metrics-mode program (oracle of C12)."""
import ast


def _call_name(c):
    """('Metrics', 'trace') for Metrics.trace(...), (None, 'f') for f(...), ('<expr>', 'm') for x.m(...)"""
    f = c.func
    if isinstance(f, ast.Attribute):
        if isinstance(f.value, ast.Name):
            return f.value.id, f.attr
        return "<expr>", f.attr
    if isinstance(f, ast.Name):
        return None, f.id
    return None, None


def _const(n):
    return n.value if isinstance(n, ast.Constant) else None


class Section:
    def __init__(self, prefix, line):
        self.prefix, self.begin_line = prefix, line
        self.end_line = None
        self.registered = {}      # (rank, type) -> [(line, consumable)]
        self.fiber_traces = {}    # type -> first line
        self.filter_out = {}      # file -> line
        self.intersectors = {}    # var -> {"line":, "fed": bool, "in_loop": bool}
        self.loop_first = None
        self.loop_last = None


def analyse(text):
    """returns list of problem strings"""
    problems = []
    try:
        tree = ast.parse(text)
    except SyntaxError as e:
        return ["syntax error: %s" % e]
    sections = {}
    order = []
    state = {"open": None}
    consumptions = []   # (file, line, what)
    consume_traces = []  # (rank, type, line, section prefix)
    queried = []        # (var, line)

    def visit(stmts, depth):
        for s in stmts:
            line = s.lineno
            sec = state["open"]
            if isinstance(s, ast.For):
                if sec is not None and depth == 0:
                    if sec.loop_first is None:
                        sec.loop_first = line
                    sec.loop_last = getattr(s, "end_lineno", line)
                scan_expr(s.iter, line, depth, in_loop=depth > 0)
                visit(s.body, depth + 1)
                continue
            if isinstance(s, ast.If):
                scan_expr(s.test, line, depth, in_loop=depth > 0)
                visit(s.body, depth)
                visit(s.orelse, depth)
                continue
            # assignment of an intersector model
            if isinstance(s, ast.Assign) and len(s.targets) == 1 and isinstance(s.targets[0], ast.Name) \
                    and isinstance(s.value, ast.Call) and isinstance(s.value.func, ast.Name) and s.value.func.id.endswith("Intersector"):
                if sec is None:
                    problems.append("line %d: intersector model %s created outside a collection section" % (line, s.targets[0].id))
                else:
                    if depth > 0 or sec.loop_first is not None:
                        problems.append("line %d: intersector model %s created inside/after the loop nest" % (line, s.targets[0].id))
                    sec.intersectors[s.targets[0].id] = {"line": line, "fed": False}
                continue
            if isinstance(s, ast.Assign) and len(s.targets) == 1 and isinstance(s.targets[0], ast.Name) and s.targets[0].id == "traces" \
                    and isinstance(s.value, ast.Dict):
                for v in s.value.values:
                    if _const(v) is None:
                        problems.append("line %d: non-literal trace file in traces dictionary" % line)
                    else:
                        consumptions.append((_const(v), line, "traces dictionary"))
                continue
            for node in ast.walk(s):
                if isinstance(node, ast.Call):
                    handle_call(node, line, depth)

    def scan_expr(e, line, depth, in_loop):
        for node in ast.walk(e):
            if isinstance(node, ast.Call):
                handle_call(node, line, depth)

    def handle_call(c, line, depth):
        obj, name = _call_name(c)
        sec = state["open"]
        if obj == "Metrics" and name == "beginCollect":
            p = _const(c.args[0]) if c.args else None
            if depth > 0:
                problems.append("line %d: Metrics.beginCollect inside a loop" % line)
            if sec is not None:
                problems.append("line %d: Metrics.beginCollect(%r) while collection %r is still open" % (line, p, sec.prefix))
            if p in sections:
                problems.append("line %d: collection %r opened twice" % (line, p))
            ns = Section(p, line)
            sections[p] = ns
            order.append(ns)
            state["open"] = ns
        elif obj == "Metrics" and name == "endCollect":
            if depth > 0:
                problems.append("line %d: Metrics.endCollect inside a loop" % line)
            if sec is None:
                problems.append("line %d: Metrics.endCollect without an open collection" % line)
            else:
                if sec.loop_first is None and False:
                    pass
                sec.end_line = line
                state["open"] = None
        elif obj == "Metrics" and name == "trace":
            rank = _const(c.args[0]) if c.args else None
            kw = {k.arg: _const(k.value) for k in c.keywords}
            if sec is None:
                problems.append("line %d: Metrics.trace outside a collection section" % line)
            else:
                if sec.loop_first is not None:
                    problems.append("line %d: Metrics.trace(%r, %r) registered after the loop nest started" % (line, rank, kw.get("type_")))
                sec.registered.setdefault((rank, kw.get("type_")), []).append((line, bool(kw.get("consumable"))))
        elif obj == "Metrics" and name == "consumeTrace":
            rank, ty = (_const(c.args[0]), _const(c.args[1])) if len(c.args) >= 2 else (None, None)
            consume_traces.append((rank, ty, line, sec.prefix if sec else None))
        elif obj == "Traffic" and name == "filterTrace":
            a = [_const(x) for x in c.args]
            if len(a) != 3 or None in a:
                problems.append("line %d: Traffic.filterTrace with unexpected arguments" % line)
            else:
                consumptions.append((a[0], line, "Traffic.filterTrace input"))
                consumptions.append((a[1], line, "Traffic.filterTrace input"))
                for s2 in sections.values():
                    if s2.prefix is not None and a[2].startswith(s2.prefix + "-"):
                        s2.filter_out.setdefault(a[2], line)
        elif obj == "Compute" and name == "numIters":
            f = _const(c.args[0]) if c.args else None
            consumptions.append((f, line, "Compute.numIters"))
        elif name == "trace" and obj not in ("Metrics",):
            ty = _const(c.args[0]) if c.args else None
            if sec is None:
                problems.append("line %d: <fiber>.trace(%r) outside a collection section" % (line, ty))
            else:
                sec.fiber_traces.setdefault(ty, line)
        elif name == "addTraces" and obj not in (None, "<expr>"):
            owners = [s2 for s2 in order if obj in s2.intersectors]
            if not owners:
                problems.append("line %d: %s.addTraces on a model that was never created" % (line, obj))
            else:
                s2 = sec if (sec is not None and obj in sec.intersectors) else owners[-1]
                # the footer of the outermost loop rank is emitted right after that loop: "inside the loops" means after
                # the loop nest has started and before the collection is closed
                if s2.loop_first is None:
                    problems.append("line %d: %s.addTraces before the loop nest" % (line, obj))
                if sec is not s2:
                    problems.append("line %d: %s.addTraces outside its collection section" % (line, obj))
                s2.intersectors[obj]["fed"] = True
        elif name == "getNumIntersects" and obj not in (None, "<expr>"):
            queried.append((obj, line))

    visit(tree.body, 0)
    if state["open"] is not None:
        problems.append("collection %r is never closed" % state["open"].prefix)
    for sec in order:
        if sec.end_line is None:
            problems.append("collection %r opened at line %d is never closed" % (sec.prefix, sec.begin_line))
        elif sec.loop_first is not None and not (sec.begin_line < sec.loop_first and sec.loop_last < sec.end_line):
            problems.append("collection %r does not bracket its loop nest" % sec.prefix)
    # consumed files
    for f, line, what in consumptions:
        if f is None:
            problems.append("line %d: %s with a non-literal file name" % (line, what))
            continue
        sec = None
        for s2 in order:
            if s2.prefix is not None and f.startswith(s2.prefix + "-") and (sec is None or len(s2.prefix) > len(sec.prefix)):
                sec = s2
        if sec is None:
            problems.append("line %d: %s reads %r, which no collection prefix produces" % (line, what, f))
            continue
        if sec.end_line is None or line < sec.end_line:
            problems.append("line %d: %s reads %r before collection %r is closed" % (line, what, f, sec.prefix))
        if f in sec.filter_out and sec.filter_out[f] < line:
            continue
        body = f[len(sec.prefix) + 1:]
        if not body.endswith(".csv") or "-" not in body:
            problems.append("line %d: %s reads malformed trace name %r" % (line, what, f))
            continue
        rank, ty = body[:-4].split("-", 1)
        regs = sec.registered.get((rank, ty))
        if not regs:
            problems.append("line %d: %s reads %r but collection %r never registers Metrics.trace(%r, type_=%r)"
                            % (line, what, f, sec.prefix, rank, ty))
            continue
        if ty.startswith("eager_") and ty not in sec.fiber_traces:
            problems.append("line %d: %s reads %r but no <fiber>.trace(%r) is emitted in collection %r" % (line, what, f, ty, sec.prefix))
    for rank, ty, line, p in consume_traces:
        sec = sections.get(p)
        if sec is None:
            problems.append("line %d: Metrics.consumeTrace(%r, %r) outside a collection section" % (line, rank, ty))
            continue
        regs = sec.registered.get((rank, ty)) or []
        if not any(cons for _, cons in regs):
            problems.append("line %d: Metrics.consumeTrace(%r, %r) but no consumable registration in collection %r" % (line, rank, ty, p))
    for var, line in queried:
        owner = [s2 for s2 in order if var in s2.intersectors and s2.begin_line < line][-1:]
        if not owner:
            problems.append("line %d: %s.getNumIntersects() on a model that was never created" % (line, var))
        elif not owner[0].intersectors[var]["fed"]:
            problems.append("line %d: %s.getNumIntersects() but the model never receives addTraces" % (line, var))
        elif owner[0].end_line is None or line < owner[0].end_line:
            problems.append("line %d: %s.getNumIntersects() before its collection is closed" % (line, var))
    return problems
