"""Entry point: /verif/check <Cxx> [--tier quick|thorough] [--replay FILE] [--jobs N]

Contract (see MANIFEST.json): exit 0 if the property held on everything explored (KNOWN-FINDING lines
allowed), exit 1 with `VIOLATION property=<id> replay=<path>` otherwise, exit 2 on harness errors.
Evidence is rewritten on every run.
"""
import argparse
import hashlib
import importlib
import json
import os
import sys
import time

HERE = os.path.dirname(os.path.dirname(os.path.abspath(__file__)))
from mc.core.paths import REPO  # noqa: E402
if REPO not in sys.path:
    sys.path.insert(0, REPO)

from mc.core import findings as findings_mod  # noqa: E402
from mc.core.par import HarnessError  # noqa: E402

MAX_REPORT = 25


class Ctx:
    def __init__(self, prop, tier, seed, jobs):
        self.prop = prop
        self.tier = tier
        self.seed = seed
        self.jobs = jobs
        self.quick = tier == "quick"

    def pick(self, quick, thorough):
        return quick if self.quick else thorough


def canon_json(x):
    return json.dumps(x, sort_keys=True, default=str, separators=(",", ":"))


def write_replay(prop, viol):
    d = os.path.join(HERE, "replays", prop)
    os.makedirs(d, exist_ok=True)
    body = {"property": prop, "sig": viol.get("sig", {}), "msg": viol.get("msg", ""), "case": viol.get("case", {})}
    sha = hashlib.sha1(canon_json({"sig": body["sig"], "case": body["case"]}).encode()).hexdigest()[:16]
    path = os.path.join(d, sha + ".json")
    with open(path, "w") as f:
        json.dump(body, f, indent=1, sort_keys=True, default=str)
    with open(os.path.join(d, sha + "_test.py"), "w") as f:
        f.write("# plain pytest replay of one violation, no explorer involved\n"
                "import sys\nsys.path[:0] = [%r, '/repo']\n"
                "from mc.run import replay_file\n\n\n"
                "def test_replay():\n    assert replay_file(%r) == [], 'violation reproduces'\n" % (HERE, path))
    return path


def load_module(prop):
    return importlib.import_module("mc.props." + prop.lower())


def replay_file(path, tier="quick"):
    with open(path) as f:
        body = json.load(f)
    prop = body["property"]
    mod = load_module(prop)
    ctx = Ctx(prop, tier, 0, 1)
    return mod.replay(ctx, body["case"])


def write_evidence(prop, ctx, level, coverage, assumptions, wall, nviol):
    os.makedirs(os.path.join(HERE, "evidence"), exist_ok=True)
    ev = {
        "property_id": prop,
        "tier": ctx.tier,
        "seed": ctx.seed,
        "level": level,
        "coverage": coverage,
        "assumptions": assumptions,
        "wall_s": round(wall, 2),
        "violations": nviol,
    }
    check_evidence(ev)
    tmp = os.path.join(HERE, "evidence", prop + ".json.tmp")
    with open(tmp, "w") as f:
        json.dump(ev, f, indent=1, sort_keys=True, default=str)
    os.replace(tmp, os.path.join(HERE, "evidence", prop + ".json"))


def check_evidence(ev):
    """Minimal local validation of the keys EVIDENCE.schema.json requires for the level."""
    cov = ev["coverage"]
    lvl = ev["level"]
    if lvl == "model_checking":
        for k in ("states", "transitions", "traces_validated_against_impl", "samples"):
            if k not in cov:
                raise HarnessError("evidence: missing coverage." + k)
        if cov["states"] < 1 or cov["transitions"] < 1 or not cov["samples"]:
            raise HarnessError("evidence: vacuous model_checking coverage %r" % {k: cov[k] for k in ("states", "transitions")})
    elif lvl == "exploration":
        for k in ("evaluations", "distinct_nontrivial", "rule", "samples"):
            if k not in cov:
                raise HarnessError("evidence: missing coverage." + k)
        if cov["evaluations"] < 1 or cov["distinct_nontrivial"] < 2 or not cov["samples"]:
            raise HarnessError("evidence: vacuous exploration coverage")
    else:
        raise HarnessError("evidence: unexpected level " + lvl)


def main(argv=None):
    ap = argparse.ArgumentParser()
    ap.add_argument("prop")
    ap.add_argument("--tier", default=os.environ.get("VERIF_TIER", "quick"), choices=["quick", "thorough"])
    ap.add_argument("--replay")
    ap.add_argument("--jobs", type=int, default=0)
    args = ap.parse_args(argv)
    prop = args.prop.upper()
    seed = int(os.environ.get("VERIF_SEED", "0") or 0)
    jobs = args.jobs or int(os.environ.get("MC_JOBS", "0") or 0) or min(16, os.cpu_count() or 1)
    ctx = Ctx(prop, args.tier, seed, jobs)
    try:
        mod = load_module(prop)
    except ModuleNotFoundError as e:
        print("HARNESS-ERROR no such check: %s (%s)" % (prop, e))
        return 2

    if args.replay:
        with open(args.replay) as f:
            body = json.load(f)
        viols = mod.replay(ctx, body["case"])
        if viols:
            for v in viols:
                print("VIOLATION property=%s replay=%s" % (prop, args.replay))
                print("  " + v.get("msg", "")[:2000])
            return 1
        print("REPLAY-OK property=%s (no violation on the current tree)" % prop)
        return 0

    t0 = time.time()
    try:
        res = mod.run(ctx)
    except HarnessError as e:
        print("HARNESS-ERROR property=%s %s" % (prop, e))
        return 2
    wall = time.time() - t0

    known = findings_mod.load(prop)
    new, matched = findings_mod.split(res["violations"], known)

    # identical signatures are one violation
    uniq = {}
    for v in new:
        uniq.setdefault(canon_json(v.get("sig", {})), v)
    new = list(uniq.values())

    cov = res["coverage"]
    cov.setdefault("known_findings_matched", {k: len(v) for k, v in matched.items()})
    write_evidence(prop, ctx, res.get("level", getattr(mod, "LEVEL", "exploration")), cov,
                   res.get("assumptions", []), wall, len(new))

    for fid, vs in sorted(matched.items()):
        print("KNOWN-FINDING: property=%s %s: %s (%d matching case(s) this run)" % (prop, fid, known[fid]["what"], len(vs)))

    rc = 0
    unreproducible = []
    for v in new[:MAX_REPORT]:
        # a violation must reproduce from its own replay case before it is believed
        if hasattr(mod, "replay") and v.get("case") is not None and not v.get("no_recheck"):
            again = mod.replay(ctx, v["case"])
            sigs = [canon_json(a.get("sig", {})) for a in again]
            if canon_json(v.get("sig", {})) not in sigs:
                # not believed: reported only as a harness problem, and only if nothing else reproduces
                unreproducible.append(v.get("msg", "")[:300])
                continue
        path = write_replay(prop, v)
        print("VIOLATION property=%s replay=%s" % (prop, path))
        print("  " + v.get("msg", "").replace("\n", "\n  ")[:3000])
        rc = 1
    if new:
        kinds = {}
        for v in new:
            k = str(v.get("sig", {}).get("kind"))
            kinds[k] = kinds.get(k, 0) + 1
        print("violations by kind: %s" % canon_json(kinds))
    if len(new) > MAX_REPORT:
        print("... %d further distinct violations not written out" % (len(new) - MAX_REPORT))
    if unreproducible and rc == 0:
        print("HARNESS-NONDETERMINISM property=%s: %d violation(s) did not reproduce from their replay case, e.g. %s"
              % (prop, len(unreproducible), unreproducible[0]))
        return 2
    summary = {k: v for k, v in cov.items() if isinstance(v, (int, float, bool, str)) and k != "rule"}
    print("%s tier=%s wall=%.1fs violations=%d known=%d %s" % (prop, ctx.tier, wall, len(new),
                                                              sum(len(v) for v in matched.values()), canon_json(summary)))
    return rc


if __name__ == "__main__":
    sys.exit(main())
