#!/bin/bash
# Offline setup: nothing to build (pure Python, runs from /repo's working tree); run the machinery's own self-tests.
set -e
cd "$(dirname "${BASH_SOURCE[0]}")"
export PYTHONDONTWRITEBYTECODE=1 PYTHONHASHSEED=0 PYTHONPATH="$PWD:/repo"
/venv/bin/python -m py_compile mc/*.py mc/*/*.py
/venv/bin/python -m mc.selftest.run
